"""C10 - the decoder is total, makes progress and never accepts a corrupted frame."""
import os
import time

from hypothesis import strategies as st

from asyncfix.codec import Codec
from asyncfix.protocol import FIXProtocol44
from vlib.hyp import run_given
from vlib.reffix import SOH, ref_check_all, ref_checksum, ref_encode, ref_msg, ref_split_stream
from vlib.runner import derive_seed

PROPERTY = "C10"
LEVEL = "exploration"
RULE = (
    "(a) Hypothesis binary strings and marker-seeded byte soups; (b) grammar-aware malformed frames "
    "(fault operators on BodyLength, CheckSum, tags, '=', empty fields, field order, BeginString, "
    "truncation at every byte, embedded marker), alone and concatenated with valid frames; (c) "
    "EXHAUSTIVE single-byte edits of a corpus of valid frames: substitution at every position by "
    "each byte of a representative set (quick) or all 255 other values (thorough), deletion at "
    "every position, insertion of the representative set at every position; (d, thorough only) a coverage-guided atheris/libFuzzer "
    "campaign on decode with this oracle inside the target, from an empty and from the valid corpus; (e) live reader: each "
    "malformed input followed by 6 valid frames on a real logged-on endpoint, in one read, in "
    "separate reads and with the read ending 1 / 5 bytes into the next valid frame; also frames the decoder accepts but the session layer cannot digest (MsgSeqNum empty / not a number / repeated / longer than int() converts, SenderCompID repeated, session bodies without their fields) followed by valid frames after which the peer stays SILENT - the valid frames must have been dispatched without waiting for further bytes. Oracle: decode(silent=True) never raises, 0<=used<=len, the drain loop "
    "terminates within len+1 rounds, a message comes with used>0, any returned raw frame is a slice "
    "of the input and passes the independent reference framer (CheckSum and BodyLength "
    "consistent). Non-trivial = input contains the frame-start marker; distinct by input bytes."
)
ASSUMPTIONS = [
    "vlib/reffix.py is the independent definition of a well-formed frame",
    "live reader: valid frames overlapped by the malformed frame's claimed extent (its BodyLength) are FREE",
    "a single decode of <=4KB that has not returned after 30 s counts as non-termination",
]

CODEC = Codec(FIXProtocol44())
MARKER = b"8=FIX."
REP = [0x00, 0x01, 0x02, 0x09, 0x0A, 0x20, 0x2B, 0x2D, 0x2E, 0x30, 0x31, 0x38, 0x39, 0x3D, 0x41, 0x46,
       0x58, 0x7C, 0x7F, 0x80, 0xB2, 0xE9, 0xFE, 0xFF]


def corpus():
    fs = []
    fs.append(ref_msg("0", "CLI", "SRV", 2))
    fs.append(ref_msg("1", "CLI", "SRV", 3, [(112, "TEST")]))
    fs.append(ref_msg("A", "CLI", "SRV", 1, [(98, 0), (108, 30)]))
    fs.append(ref_msg("2", "SRV", "CLI", 4, [(7, 1), (16, 0)]))
    fs.append(ref_msg("4", "SRV", "CLI", 5, [(123, "Y"), (36, 9)]))
    fs.append(ref_msg("5", "SRV", "CLI", 6, [(58, "bye")]))
    fs.append(ref_msg("D", "CLI", "SRV", 7, [(11, "ord-1"), (55, "MSFT"), (54, 1), (38, 100), (40, 2), (44, "10.5")]))
    fs.append(ref_msg("8", "SRV", "CLI", 8, [(37, "o1"), (17, "e1"), (150, "0"), (39, "0"), (55, "X"), (54, 1), (151, 5), (14, 0), (6, 0)]))
    fs.append(ref_msg("D", "CLI", "SRV", 9, [(11, "g"), (453, 2), (448, "p1"), (447, "D"), (452, 1), (448, "p2"), (447, "D"), (452, 3), (55, "Z")]))
    fs.append(ref_msg("D", "CLI", "SRV", 10, [(58, "a=b|c 10=000 9=5")], possdup=True))
    fs.append(ref_msg("UX", "CLI", "SRV", 11, [(5001, "custom")]))
    # a frame from the repository's own tests (tests/test_codec.py)
    body = b"35=A|34=1|49=SENDER|52=20230919-07:13:26.808|56=TARGET|98=0|108=30|141=Y|".replace(b"|", SOH)
    t = b"8=FIX.4.4\x019=%d\x01" % len(body) + body
    fs.append(t + b"10=" + ref_checksum(t) + SOH)
    # rare by chance: a valid frame whose CheckSum is exactly 000, one with 255, and one whose BodyLength is exactly 100
    for want in (b"000", b"255"):
        for i in range(3000):
            f = ref_msg("D", "CLI", "SRV", 12, [(11, "k" * (i % 37) + chr(65 + i % 26) + str(i)), (55, "IBM")])
            if f[-4:-1] == want:
                fs.append(f)
                break
    for i in range(60):
        f = ref_msg("D", "CLI", "SRV", 13, [(11, "L"), (58, "y" * i)])
        if f.split(SOH)[1] == b"9=100":
            fs.append(f)
            break
    for f in fs:
        assert not ref_check_all(f), (f, ref_check_all(f))
    return fs


def thorough_corpus():
    fs = corpus()
    for i in range(12, 30):
        fs.append(ref_msg("D", "CLI", "SRV", i * 37, [(11, f"id{i}"), (58, "x" * (i % 7) + "8=FI"), (44, i / 7)]))
    return fs


EDIT_OPS = {"subst", "delete", "insert", "insert-nul"}


def _lenient_int(b):
    """int() as a tolerant reader would parse a numeric field: blanks and a plus sign allowed."""
    t = b.strip(b" ")
    if t.startswith(b"+"):
        t = t[1:]
    return int(t) if t.isdigit() and t.isascii() and len(t) < 4000 else None


def _inconsistent(raw):
    """Which of CheckSum / BodyLength are inconsistent with the frame's bytes, reading the two
    declared numbers tolerantly (the statement speaks of consistency, not of lexical form)."""
    bad = set()
    if not raw.endswith(SOH):
        return {"checksum"}
    parts = raw[:-1].split(SOH)
    if len(parts) < 3 or not parts[-1].startswith(b"10=") or not parts[1].startswith(b"9="):
        return {"checksum"} if not parts[-1].startswith(b"10=") else {"bodylength"}
    pre = raw[: len(raw) - len(parts[-1]) - 1]
    ck = _lenient_int(parts[-1][3:])
    if ck is None or ck != sum(pre) % 256:
        bad.add("checksum")
    bl = _lenient_int(parts[1][2:])
    body_len = len(raw) - (len(parts[0]) + 1 + len(parts[1]) + 1) - (len(parts[-1]) + 1)
    if bl is None or bl != body_len:
        bad.add("bodylength")
    return bad


def judge_decode(acc, buf, op, case_extra=None, nontrivial=True):
    """Full drain loop over buf with the oracle; returns list of (raw, used_at)."""
    case = {"buf": buf, "op": op}
    if case_extra:
        case.update(case_extra)
    out = []
    rest = buf
    rounds = 0
    limit = len(buf) + 1
    while rest:
        rounds += 1
        if rounds > limit:
            acc.violation(f"C10:no-termination/{op}", f"drain loop exceeded {limit} rounds", case)
            break
        t0 = time.perf_counter()
        try:
            m, used, raw = CODEC.decode(rest, silent=True)
        except BaseException as e:  # noqa
            acc.violation(f"C10:raises/{type(e).__name__}/{op}", f"decode(silent=True) raised {type(e).__name__}: {e}; input={rest[:200]!r}", case)
            break
        if time.perf_counter() - t0 > 30 and len(rest) <= 4096:
            acc.violation(f"C10:no-termination/slow/{op}", "single decode took more than 30 s", case)
        if not isinstance(used, int) or used < 0 or used > len(rest):
            acc.violation(f"C10:consumed-out-of-range/{'negative' if isinstance(used, int) and used < 0 else 'beyond'}/{op}",
                          f"used={used} len={len(rest)} input={rest[:200]!r}", case)
            break
        if m is not None:
            if used == 0:
                acc.violation(f"C10:message-without-progress/{op}", f"message returned with used=0; input={rest[:200]!r}", case)
                break
            if not isinstance(raw, (bytes, bytearray)) or raw not in rest[:used + len(raw)]:
                acc.violation(f"C10:raw-not-in-input/{op}", f"raw={raw!r} input={rest[:200]!r}", case)
            else:
                failed = _inconsistent(raw)
                strict = ref_check_all(raw) & {"bodylength", "checksum", "trailer"}
                if strict == {"bodylength"} or (not strict and failed == {"bodylength"}):
                    # one root cause, one signature: BodyLength is never compared with the bytes
                    acc.violation("C10:bodylength-unverified",
                                  f"decode returned a frame whose BodyLength disagrees with its byte count (CheckSum consistent): raw={raw!r} (op {op})", case)
                elif op in EDIT_OPS and strict and raw in (buf, buf[:len(raw)]):
                    # the statement's explicit consequence: a single-byte corruption of a valid
                    # frame is never returned as a message
                    acc.violation(f"C10:corrupt-edit-accepted/{'+'.join(sorted(strict))}/{op}",
                                  f"single-byte {op} of a valid frame was returned as a message (reference framer: {sorted(strict)}): raw={raw!r}", case)
                elif failed:
                    acc.violation(f"C10:accepted-invalid/{'+'.join(sorted(failed))}/{op}",
                                  f"decode returned a frame whose {sorted(failed)} is inconsistent with its bytes: raw={raw!r} used={used}; input={rest[:300]!r}", case)
                elif rest[used - len(raw):used] != raw:
                    acc.violation(f"C10:consumed-mismatch/{op}", f"raw is not the slice ending at used={used}: raw={raw!r} input={rest[:300]!r}", case)
            out.append(raw)
        elif used == 0:
            break  # wait for more data
        rest = rest[used:]
    nt = nontrivial and MARKER in buf
    acc.case(buf if nt else None, cls=[f"op={op.split('/')[0]}", "accepted" if out else "rejected"])
    return out


# ---------------------------------------------------------------- (c) byte edits
def edits(acc, frames, subs, tag):
    for fi, f in enumerate(frames):
        n = 0
        for pos in range(len(f)):
            for b in subs:
                if b == f[pos]:
                    continue
                g = f[:pos] + bytes([b]) + f[pos + 1:]
                if ref_check_all(g):
                    judge_decode(acc, g, "subst", {"frame": fi, "pos": pos})
                    n += 1
            g = f[:pos] + f[pos + 1:]
            if ref_check_all(g):
                judge_decode(acc, g, "delete", {"frame": fi, "pos": pos})
                n += 1
        for pos in range(len(f) + 1):
            for b in REP:
                g = f[:pos] + bytes([b]) + f[pos:]
                if not ref_check_all(g):
                    continue
                judge_decode(acc, g, "insert-nul" if b == 0 else "insert", {"frame": fi, "pos": pos})
                n += 1
        if len(acc.samples) < 2:
            acc.samples.append({"frame": f.decode("latin-1"), "single_byte_edits_tried": n})


# ---------------------------------------------------------------- (b) grammar faults
def _reframe(fields, fix_len=True, fix_sum=True, begin=b"FIX.4.4", bodylen=None, cksum=None):
    body = b"".join(f + SOH for f in fields)
    bl = str(len(body)).encode() if bodylen is None else bodylen
    pre = b"8=" + begin + SOH + b"9=" + bl + SOH + body
    ck = ref_checksum(pre) if cksum is None else cksum
    return pre + b"10=" + ck + SOH


def grammar_faults(f):
    """Yields (op, bytes) single-fault variants of valid frame f."""
    parts = f[:-1].split(SOH)
    fields = parts[2:-1]
    bl = int(parts[1][2:])
    ck = parts[-1][3:]
    for v in [b"ab", b"", b"-5", b"+%d" % bl, b" %d" % bl, b"%d " % bl, b"1e2", b"99999999", b"0", b"\xb2\xb3", b"0x10", b"%d.0" % bl]:
        yield "bodylength-nonnumeric" if not v.strip().lstrip(b"+-").isdigit() else "bodylength-odd", _reframe(fields, bodylen=v)
    # numbers with more digits than int() converts (Python >= 3.11 refuses more than 4300), with and without a trailer
    for v in [b"1" * 4300, b"1" * 4301, b"9" * 5000, b"0" * 5000 + b"%d" % bl]:
        g = _reframe(fields, bodylen=v)
        yield "bodylength-huge", g
        yield "bodylength-huge/no-trailer", g[: g.rindex(b"10=")]
        yield "bodylength-huge/header-only", g[: g.index(b"\x019=") + 3 + len(v) + 1]
    yield "checksum-huge", _reframe(fields, cksum=b"1" * 5000)
    yield "tag-huge", _reframe(fields[:1] + [b"5" * 5000 + b"=1"] + fields[1:])
    for d in list(range(-9, 0)) + list(range(1, 10)) + [100, -bl]:
        yield ("bodylength-off", _reframe(fields, bodylen=str(max(bl + d, 0)).encode()))
        # same but checksum of the original (inconsistent)
    for v in [b"abc", b"", b"12", b"1234", b" %s" % ck[1:], b"+%s" % ck[1:], b"%s " % ck[:2], b"\xb2\xb3\xb9", b"-01", b"0x1"]:
        yield "checksum-format", _reframe(fields, cksum=v)
    yield "checksum-wrong", _reframe(fields, cksum=b"%03d" % ((int(ck) + 1) % 256))
    for i in range(len(fields) + 1):
        for junk, op in [(b"abc=1", "tag-nonnumeric"), (b"=1", "tag-empty"), (b"1a=2", "tag-nonnumeric"), (b"garbage", "no-equals"), (b"", "empty-field"), (b"58=", "empty-value"), (b"\xb2=1", "tag-nonnumeric")]:
            yield op, _reframe(fields[:i] + [junk] + fields[i:])
    for i in range(len(fields) - 1):
        sw = list(fields)
        sw[i], sw[i + 1] = sw[i + 1], sw[i]
        yield "reorder", _reframe(sw)
    for b in [b"FIX.4.2", b"FIX.5.0", b"FIX.4.4x", b"FIX.4.", b"FIXT.1.1"]:
        yield "beginstring", _reframe(fields, begin=b)
    # second tag not BodyLength
    body = b"".join(x + SOH for x in fields)
    pre = b"8=FIX.4.4" + SOH + fields[0] + SOH + b"9=%d" % bl + SOH + b"".join(x + SOH for x in fields[1:])
    yield "second-not-bodylength", pre + b"10=" + ref_checksum(pre) + SOH
    pre = b"8=FIX.4.4" + SOH + body
    yield "second-not-bodylength", pre + b"10=" + ref_checksum(pre) + SOH
    yield "embedded-marker", _reframe(fields + [b"58=xx 8=FIX.4.4 yy"])
    yield "embedded-marker", _reframe(fields + [b"58=8=FIX."])
    for t in range(1, len(f)):
        yield "truncated", f[:t]
    yield "no-trailer", f[: -8] if f[-8:-4] == b"\x0110=" else f[:-7]


def faults(acc, frames):
    valid = frames[0]
    for fi, f in enumerate(frames):
        for op, g in grammar_faults(f):
            if not ref_check_all(g):
                # the variant happens to be well-formed (e.g. a tag number of 5000 digits): totality and progress still apply
                judge_decode(acc, g, op + "/well-formed", {"frame": fi})
                judge_decode(acc, g + valid, op + "/well-formed/+valid")
                continue
            judge_decode(acc, g, op, {"frame": fi})
            judge_decode(acc, g + valid, op + "/+valid")
            judge_decode(acc, valid + g + valid + valid, op + "/valid+..+valid")
            if len(acc.samples) < 6 and op in ("bodylength-nonnumeric", "tag-nonnumeric", "checksum-format"):
                acc.samples.append({"op": op, "input": g.decode("latin-1")})


# ---------------------------------------------------------------- (a) random
def hyp_binary(acc, n, seed):
    frames = corpus()
    piece = st.one_of(
        st.binary(max_size=40),
        st.sampled_from([MARKER, b"8=FIX.4.4\x01", b"9=", b"\x0110=", b"\x01", b"=", b"8=FIX", b"10=000\x01", b"9=5\x01", b"35=A\x01", b"8=FIX.4.4\x019=5\x01"]),
        st.sampled_from(frames),
        st.sampled_from(frames).flatmap(lambda f: st.integers(0, len(f)).map(lambda k: f[:k])),
        st.sampled_from(frames).flatmap(lambda f: st.integers(0, len(f)).map(lambda k: f[k:])),
    )
    soup = st.one_of(st.binary(max_size=600), st.lists(piece, max_size=8).map(b"".join))
    run_given(soup, lambda b: judge_decode(acc, b, "generated"), n, seed)


# ---------------------------------------------------------------- (e) live reader
def claimed_extent(m):
    """Bytes the malformed input claims for itself (by its BodyLength, if parsable)."""
    if m.startswith(b"8=FIX.4.4\x019="):
        i2 = m.find(SOH, 12)
        v = m[12:i2] if i2 > 0 else b""
        if v.isdigit() and v.isascii() and len(v) < 12:
            return max(len(m), i2 + 1 + int(v) + 7)
    return len(m)


def live_case(acc, m, op, split):
    from vlib.simnet import acceptor_world

    vs = [ref_msg("D", "CLI", "SRV", 2 + i, [(11, f"v{i}"), (58, "payload")]) for i in range(6)]
    ext = claimed_extent(m)
    case = {"malformed": m, "op": op, "split": split}
    # a frame may swallow what it claims by its BodyLength - but not without bound: "can never block the frames that follow it"
    # rules out waiting for a claimed megabyte. At most the first three follow-up frames are excused.
    if ext > len(m) + sum(len(v) for v in vs[:3]):
        ext = len(m) + sum(len(v) for v in vs[:3])
        acc.klass("live/claimed-extent-capped")
    w, s, link = acceptor_world()
    try:
        r = link.readers["s"]
        n0 = len(s.dispatched)
        if split == "one-read":
            r.feed(m + b"".join(vs))
            w.idle()
        elif split.startswith("tail"):
            # the read that brings the malformed input ends k bytes into the next valid frame
            k = int(split[4:])
            r.feed(m + vs[0][:k])
            w.idle()
            r.feed(vs[0][k:] + b"".join(vs[1:]))
            w.idle()
        else:
            r.feed(m)
            w.idle()
            for v in vs:
                r.feed(v)
                w.idle()
        kick = ref_msg("0", "CLI", "SRV", 8)  # later traffic: delays until the next read do not count
        r.feed(kick)
        w.idle()
        vs = vs + [kick]
        got = s.dispatched[n0:]
        task = s._aio_task_socket_read
        if task.done():
            acc.violation(f"C10:live/reader-task-died/{op}", f"reader task ended: {task!r}", case)
            return
        # which Vi are overlapped by M's claimed extent
        off = len(m)
        J = 0
        for i, v in enumerate(vs):
            if off < ext:
                J = i + 1
            off += len(v)
        owed = vs[J:]
        if any(g not in vs for g in got):
            # the decoder accepted (part of) the malformed input as a message: that is judged by
            # the decode-level oracle; its session-level consequences are not this clause's business
            acc.case(None, cls="live/malformed-input-was-dispatched")
            return
        tail = got[-len(owed):] if owed else []
        if owed and tail != owed:
            still = [v for v in owed if v not in got]
            acc.violation(f"C10:live/blocked-following-frames/{op}/{split}",
                          f"{len(still)} of {len(owed)} valid frames after the malformed input never reached the dispatcher "
                          f"(state={s.connection_state!r}, buffer={len(s._msg_buffer)}B); malformed={m[:120]!r}", case)
        elif s._msg_buffer and owed:
            acc.violation(f"C10:live/buffer-not-drained/{op}/{split}", f"receive buffer holds {len(s._msg_buffer)} bytes after the last read: {s._msg_buffer[:80]!r}", case)
        acc.case((m, split), cls=[f"live/{split}", f"op={op}"], sample={"live": op, "malformed": m.decode("latin-1"), "split": split} if len(acc.samples) < 7 else None)
    finally:
        w.close()


def semantic_faults():
    """Frames that are well-formed for the decoder but that the session layer cannot digest."""
    H = [(49, "CLI"), (56, "SRV")]
    T = [(52, "20230101-00:00:00.000")]
    return [
        ("seqnum-nonnumeric", ref_encode("D", H + [(34, "2x")] + T + [(11, "a")])),
        ("seqnum-empty-ish", ref_encode("D", H + [(34, " ")] + T + [(11, "a")])),
        ("seqnum-empty", ref_encode("D", H + [(34, "")] + T + [(11, "a")])),
        ("sender-duplicated", ref_encode("D", [(49, "CLI"), (49, "CLI"), (56, "SRV"), (34, 2)] + T + [(11, "a")])),
        ("seqnum-float", ref_encode("0", H + [(34, "2.0")] + T)),
        ("seqnum-huge", ref_encode("0", H + [(34, "9" * 400)] + T)),
        ("seqnum-beyond-int-conversion", ref_encode("0", H + [(34, "9" * 5000)] + T)),
        ("resend-begin-beyond-int-conversion", ref_encode("2", H + [(34, 2)] + T + [(7, "1" * 5000), (16, 0)])),
        ("seqreset-newseqno-beyond-int-conversion", ref_encode("4", H + [(34, 2)] + T + [(123, "Y"), (36, "1" * 5000)])),
        ("seqnum-duplicated", ref_encode("D", H + [(34, 2), (34, 2)] + T + [(11, "a")])),
        ("resend-begin-nonnumeric", ref_encode("2", H + [(34, 2)] + T + [(7, "abc"), (16, 0)])),
        ("resend-fields-missing", ref_encode("2", H + [(34, 2)] + T)),
        ("seqreset-newseqno-missing", ref_encode("4", H + [(34, 2)] + T + [(123, "Y")])),
        ("seqreset-newseqno-nonnumeric", ref_encode("4", H + [(34, 2)] + T + [(36, "x")])),
        ("heartbeat-testreqid-text", ref_encode("0", H + [(34, 2)] + T + [(112, "abc")])),
        ("logon-again-without-fields", ref_encode("A", H + [(34, 2)] + T)),
        ("no-msgtype", b"".join([ref_encode("0", H + [(34, 2)] + T)]).replace(b"35=0\x01", b"58=0\x01")),
        ("sendingtime-repeated-after-group", ref_encode("D", H + [(34, 2)] + T + [(453, 1), (448, "p"), (52, "x"), (11, "a")])),
    ]


def live_semantic(acc, m, op, split):
    """m is a frame the decoder accepts; whatever the session layer makes of it, the frames behind it
    must still reach the dispatcher (unless the endpoint legitimately disconnected)."""
    from asyncfix.connection import ConnectionState
    from vlib.simnet import acceptor_world

    if ref_check_all(m) - {"bodylength", "checksum"}:
        pass
    # re-frame after the textual edit of 'no-msgtype' (checksum unchanged by a same-length swap? recompute)
    parts = m[:-1].split(SOH)
    if parts[-1].startswith(b"10="):
        pre = m[: len(m) - len(parts[-1]) - 1]
        m = pre + b"10=" + ref_checksum(pre) + SOH
    vs = [ref_msg("D", "CLI", "SRV", 2 + i, [(11, f"v{i}"), (58, "payload")]) for i in range(6)]
    case = {"malformed": m, "op": op, "split": split, "semantic": True}
    w, s, link = acceptor_world()
    try:
        r = link.readers["s"]
        n0 = len(s.dispatched)
        if split == "one-read":
            r.feed(m + b"".join(vs))
            w.idle()
        else:
            r.feed(m)
            w.idle()
            for v in vs:
                r.feed(v)
                w.idle()
        # the peer now stays silent: the valid frames that arrived must have been dispatched without waiting for more input
        before_kick = s.dispatched[n0:]
        if not (s.connection_state <= ConnectionState.DISCONNECTED_BROKEN_CONN) and not s._aio_task_socket_read.done():
            waiting = [v for v in vs if v not in before_kick]
            if waiting:
                acc.violation(f"C10:live/following-frames-wait-for-more-input/{op}/{split}",
                              f"{len(waiting)} of {len(vs)} valid frames that arrived behind a decodable but semantically broken frame were not dispatched "
                              f"until further bytes arrive (state={s.connection_state!r}, buffer={len(s._msg_buffer)}B); frame={m[:160]!r}", case)
        kick = ref_msg("0", "CLI", "SRV", 8)
        r.feed(kick)
        w.idle()
        got = s.dispatched[n0:]
        task = s._aio_task_socket_read
        if task.done():
            acc.violation(f"C10:live/reader-task-died/{op}", f"reader task ended: {task!r}", case)
            return
        disconnected = s.connection_state <= ConnectionState.DISCONNECTED_BROKEN_CONN
        owed = vs + [kick]
        if disconnected:
            acc.case((m, split), cls=[f"live-semantic/{split}", "live-semantic/disconnected", f"op={op}"])
            return
        tail = got[-len(owed):]
        if tail != owed:
            still = [v for v in owed if v not in got]
            acc.violation(f"C10:live/blocked-following-frames/{op}/{split}",
                          f"{len(still)} of {len(owed)} valid frames after a decodable but semantically broken frame never reached the dispatcher "
                          f"(state={s.connection_state!r}, buffer={len(s._msg_buffer)}B); frame={m[:160]!r}", case)
        elif s._msg_buffer:
            acc.violation(f"C10:live/buffer-not-drained/{op}/{split}", f"receive buffer holds {len(s._msg_buffer)} bytes after the last read", case)
        acc.case((m, split), cls=[f"live-semantic/{split}", "live-semantic/still-connected", f"op={op}"],
                 sample={"live": op, "frame": m.decode("latin-1"), "split": split} if len(acc.samples) < 8 and op == "seqnum-nonnumeric" else None)
    finally:
        w.close()


def live(acc, seed, stride):
    frames = corpus()
    for op, m in semantic_faults():
        for split in ("one-read", "separate-reads"):
            live_semantic(acc, m, op, split)
    k = 0
    for fi, f in enumerate(frames[:6]):
        for op, g in grammar_faults(f):
            if not ref_check_all(g) or (op == "truncated" and (k % 5)):
                k += 1
                continue
            k += 1
            if k % stride:
                continue
            for split in ("one-read", "separate-reads", "tail1", "tail5"):
                live_case(acc, g, op, split)
    # garbage at scale: a frame start that never completes, stuffed with hundreds / thousands of embedded frame-start markers
    # (more decode passes than a single read's bytes could need), arriving in 4096-byte reads, followed by valid traffic
    for nmark in (300, 1500, 4000):
        for body in (b"8=FIX.", b"8=FIX.4.4\x019=5\x01", b"8=FIX.4.4\x01"):
            g = b"8=FIX.4.4\x019=30000\x0135=D\x0158=" + body * nmark
            live_case(acc, g, f"many-markers-{nmark}", "one-read")
            live_case(acc, g, f"many-markers-{nmark}", "separate-reads")
    f = frames[6]
    for pos in range(0, len(f), max(1, stride // 2)):
        for b in (0x00, 0x01, 0x3D, 0x41, 0x39):
            if b != f[pos]:
                g = f[:pos] + bytes([b]) + f[pos + 1:]
                if ref_check_all(g):
                    live_case(acc, g, "subst", "one-read")
                    live_case(acc, g, "subst", "separate-reads")


def edits_shard(acc, lo, hi, thorough):
    fs = thorough_corpus() if thorough else corpus()
    subs = list(range(256)) if thorough else REP
    edits(acc, fs[lo:hi], subs, "")


def faults_shard(acc, thorough):
    faults(acc, thorough_corpus() if thorough else corpus())


def atheris_shard(acc, runs, seed, seeded):
    """Coverage-guided campaign (libFuzzer through atheris) with this module's oracle inside the target; the corpus
    is empty or the valid corpus. A saved failing input is the reproducible unit (the campaign itself is pinned
    only approximately by -seed/-runs)."""
    import json
    import shutil
    import subprocess
    import sys
    import tempfile

    from vlib.runner import SRC, VERIF, unjson

    deps = os.path.join(VERIF, ".deps")
    if not os.path.isdir(os.path.join(deps, "atheris")):
        acc.note("atheris not installed (setup_cmd installs it into .deps): coverage-guided shard skipped")
        acc.klass("atheris-unavailable")
        return
    tmp = tempfile.mkdtemp(prefix="verif_c10_fuzz_")
    try:
        corpus = os.path.join(tmp, "corpus")
        os.makedirs(corpus)
        if seeded:
            for i, f in enumerate(corpus_frames()):
                open(os.path.join(corpus, f"seed{i}"), "wb").write(f)
        res = os.path.join(tmp, "result.json")
        env = dict(os.environ, ASYNCFIX_SRC=SRC, PYTHONPATH=os.pathsep.join([SRC, VERIF, deps]), PYTHONHASHSEED="0")
        cmd = [sys.executable, "-B", "-m", "checks.c10_fuzz", res, corpus, f"-runs={runs}", f"-seed={seed % (2**31 - 1) + 1}", "-max_len=600", "-verbosity=0", "-print_final_stats=0"]
        r = subprocess.run(cmd, cwd=VERIF, env=env, capture_output=True, text=True, timeout=3000)
        if not os.path.exists(res):
            raise RuntimeError(f"atheris campaign produced no result (rc={r.returncode}): {r.stderr[-800:]}")
        doc = json.load(open(res))
        for sig, v in doc["violations"].items():
            acc.violation(sig, v["detail"], unjson(v["case"]))
        acc.evaluations += doc["executions"]
        acc.classes["atheris-executions" + ("/seeded-corpus" if seeded else "/empty-corpus")] += doc["executions"]
        acc.extra["atheris_executions"] = acc.extra.get("atheris_executions", 0) + doc["executions"]
        acc.extra["atheris_distinct_marker_inputs"] = acc.extra.get("atheris_distinct_marker_inputs", 0) + doc["nontrivial"]
    finally:
        shutil.rmtree(tmp, ignore_errors=True)


def corpus_frames():
    return corpus()


def EXHAUSTIVE(tier):
    return False


def plan(tier, seed):
    th = tier == "thorough"
    nf = len(thorough_corpus() if th else corpus())
    jobs = [("edits_shard", {"lo": i, "hi": i + 1, "thorough": th}) for i in range(nf)]
    jobs.append(("faults_shard", {"thorough": th}))
    for i in range(4 if not th else 16):
        jobs.append(("hyp_binary", {"n": 3000 if not th else 200000, "seed": derive_seed(seed, PROPERTY, "bin", i)}))
    jobs.append(("live", {"seed": seed, "stride": 4 if not th else 1}))
    if th:
        for i in range(6):
            jobs.append(("atheris_shard", {"runs": 400000, "seed": derive_seed(seed, PROPERTY, "atheris", i), "seeded": i % 2 == 1}))
    return jobs


def replay(acc, case):
    if case.get("semantic"):
        live_semantic(acc, case["malformed"], case["op"], case["split"])
    elif "malformed" in case:
        live_case(acc, case["malformed"], case["op"], case["split"])
    else:
        judge_decode(acc, case["buf"], case["op"])
