"""C06 - a ResendRequest is answered completely, in order and without side effects."""
import itertools

from hypothesis import strategies as st

from asyncfix import FMsg
from asyncfix.message import FIXMessage, MessageDirection
from vlib.hyp import run_given
from vlib.reffix import reassemble, ref_check_frame, ref_get, ref_parse
from vlib.runner import derive_seed
from vlib.sess import Bench

PROPERTY = "C06"
LEVEL = "exploration"
SLOTS = ["app", "appg", "app43n", "hb", "rr", "declined", "hole-del", "hole-skip", "reject"]


def RULE(tier):
    k = 3 if tier == "quick" else 4
    return (
        "The outbound journal is produced by driving a real logged-on endpoint (both roles): each slot is an application "
        "message (with / without groups; bodies rotating over application-set routing fields of the standard header (SenderSubID 50, TargetSubID 57, OnBehalfOfCompID 115), fields like 835=0, 135=5, 235=2 and texts ending in '35=A', which look like a session MsgType field to a byte scanner), a session message (Heartbeat, ResendRequest, TestRequest, Logon, Logout, XMLnonFIX), an "
        "application message the endpoint's should_replay declines, a session-level Reject (FREE kind), a hole (row deleted, "
        f"or numbers skipped with set_seq_num). EXHAUSTIVELY all journals of <= {k} slots over the slot kinds x ALL "
        "(BeginSeqNo, EndSeqNo) with BeginSeqNo in [-1, L+3], EndSeqNo in {0} U [BeginSeqNo-1, L+3], issued one after the "
        "other on the same endpoint (so every request also runs after earlier overlapping and identical requests), in ACTIVE "
        "and while the endpoint itself awaits a resend; wall-clock steps backwards / forwards between sends and requests (OrigSendingTime must stay the original SendingTime); numbering epochs (reset_seq_num() between requests, so that later requests carry lower "
        "MsgSeqNums than earlier ones); a journal of 1300 (quick) / 5000 (thorough) slots requested as a whole, from the middle and bounded; plus Hypothesis journals up to 30 slots with requests interleaved "
        "with further sends. Chain validator written from the statement: the reply is a contiguous ascending chain covering "
        "exactly [b, t] whose links are retransmissions (original type and MsgSeqNum, PossDupFlag=Y, OrigSendingTime = "
        "original SendingTime, body equal field for field) or SequenceReset-GapFill; every replayable application message "
        "still journaled is retransmitted, everything else gap-filled, session messages never retransmitted; afterwards live "
        "and stored next_num_out, journal rows outside the range and connection state are unchanged - also for invalid "
        "requests. Non-trivial = valid range with both an application and a non-application slot, a repeated request, a "
        "bounded end below L, or an invalid request; distinct by (role, state, journal, b, e, ordinal)."
    )


ASSUMPTIONS = [
    "the harness' own log of first transmissions (frames without PossDupFlag and not SequenceReset, keyed by MsgSeqNum) is the ground truth",
    "FREE: what is written in reply to an invalid request; how rows inside the range are stored afterwards (they must serve the next request); where gap-fill "
    "links are split; PossDupFlag on gap fills; whether a session-level Reject(3) is retransmitted or gap-filled",
]
HDR = {"8", "9", "10", "52", "43", "122"}


class Driver:
    def __init__(self, role, state, next_out=1):
        self.b = Bench(role, "active" if state == "active" else "awaiting-mid", gap=100000, next_out=next_out)
        self.ep = self.b.ep
        self.ep.replay_filter = lambda m: "NOREPLAY" not in m.get(58, "")
        self.first = {}  # n -> (kind, raw, parsed)  first transmission under number n
        self.pos = 0
        self.uid = 0
        self.collect("setup")
        self.req_no = 0

    def collect(self, kind):
        """Registers new frames the endpoint wrote (first transmissions)."""
        w = self.b.link.writers[self.b.side].written
        out = []
        for fr in reassemble([x for _, x in w[self.pos:]]):
            p = ref_parse(fr)
            out.append((fr, p))
            if ref_get(p, 43) == "Y" or ref_get(p, 35) == "4":
                continue
            n = int(ref_get(p, 34))
            mt = ref_get(p, 35)
            k = kind
            if kind in ("setup", "auto"):
                k = "sess"
            self.first.setdefault(n, (k, fr, p))
        self.pos = len(w)
        return out

    def add_slot(self, kind):
        ep, b = self.ep, self.b
        self.uid += 1
        j = ep._journaler
        if kind in ("app", "appg", "declined", "app43n"):
            m = FIXMessage(FMsg.NEWORDERSINGLE, {11: f"c{self.uid}", 55: "SYM", 54: 1, 38: self.uid, 58: ("NOREPLAY please" if kind == "declined" else f"text {self.uid} a=b|c")})
            # bodies rotate: tags whose number ends in 35 with values that look like session MsgTypes, texts ending in '35=<type>'
            v = self.uid % 3
            if v == 1:
                m.set(835, "0")
                m.set(135, "5")
            elif v == 2 and kind != "declined":
                m.set(58, "see 35=A", replace=True)
                m.set(235, "2")
            elif v == 0 and self.uid % 2 == 0:
                # routing fields of the standard header set by the application: part of what was sent, so part of what is resent
                m.set(50, f"desk{self.uid}")
                m.set(57, "gw")
                m.set(115, "CLIENTX")
            if kind == "app43n":
                m.set(43, "N")  # an application message sent with an explicit PossDupFlag=N is still replayable
            if kind == "appg":
                m.set_group(453, [{448: "p1", 447: "D", 452: 1}, {448: "p2", 447: "D", 452: 3}])
            r = b.w.call(ep.send_msg(m))
            k = "app" if kind != "declined" else "declined"
        elif kind == "hb":
            sel = self.uid % 5
            if sel == 4:
                # XMLnonFIX (35=n): a session-level message by the library's own protocol table (session_message_types) and by FIX
                r = b.w.call(ep.send_msg(FIXMessage(FMsg.XMLNONFIX, {212: 4, 213: "<x/>"})))
            elif sel == 0:
                r = b.w.call(ep.send_msg(FIXMessage(FMsg.HEARTBEAT)))
            elif sel == 1:
                r = b.w.call(ep.send_msg(FIXMessage(FMsg.LOGON, {98: 0, 108: 30})))
            elif sel == 2:
                r = b.w.call(ep.send_msg(FIXMessage(FMsg.LOGOUT, {58: "not really"})))
            else:
                ep._test_req_id = None
                r = b.w.call(ep.send_test_req())
                ep._test_req_id = None
            k = "sess"
        elif kind == "rr":
            r = b.w.call(ep.send_msg(FIXMessage(FMsg.RESENDREQUEST, {7: 1, 16: 0})))
            k = "sess"
        elif kind == "reject":
            r = b.w.call(ep.send_msg(FIXMessage(FMsg.REJECT, {45: 1, 58: "bad"})))
            k = "free"
        elif kind == "hole-del":
            m = FIXMessage(FMsg.NEWORDERSINGLE, {11: f"lost{self.uid}", 55: "SYM"})
            r = b.w.call(ep.send_msg(m))
            self.collect("hole")
            n = ep._session.next_num_out - 1
            j.cursor.execute("DELETE FROM message WHERE session = ? AND seqNo = ? AND direction = ?", (ep._session.key, n, MessageDirection.OUTBOUND.value))
            j.conn.commit()
            return None if r[0] == "ok" else f"sending failed: {r!r}"
        elif kind == "hole-skip":
            n = ep._session.next_num_out
            j.set_seq_num(ep._session, next_num_out=n + 2)
            self.first[n] = ("hole", None, None)
            self.first[n + 1] = ("hole", None, None)
            return None
        else:
            raise ValueError(kind)
        if r[0] != "ok":
            self.collect(k)
            return f"sending a {kind} message in state {ep.connection_state.name} failed: {r[1]!r}" if r[0] == "exc" else "send blocked"
        self.collect(k)
        return None

    def journal_rows(self):
        ep = self.ep
        rows = {}
        for fr in ep._journaler.recover_messages(ep._session, MessageDirection.OUTBOUND, 0, 2**62):
            rows[int(ref_get(ref_parse(fr), 34))] = fr
        return rows

    def stored_out(self):
        ep = self.ep
        return ep._journaler.create_or_load(ep._session.target_comp_id, ep._session.sender_comp_id).next_num_out

    def request(self, acc, bq, eq, case, tag):
        """Issues ResendRequest(bq, eq) from the peer and judges the reply."""
        ep, b = self.ep, self.b
        self.req_no += 1
        L = ep._session.next_num_out - 1
        valid = 1 <= bq <= L and (eq == 0 or eq >= bq)
        t = L if (eq == 0 or eq > L) else eq
        klass = ("valid-open" if eq == 0 else "valid-bounded" if eq < L else "valid-to-last" if eq == L else "valid-beyond") if valid else \
            ("invalid-begin-beyond-last" if bq > L else "invalid-begin-nonpositive" if bq < 1 else "invalid-end-before-begin")
        rows0 = self.journal_rows()
        live0, stored0, state0 = ep._session.next_num_out, self.stored_out(), ep.connection_state
        c = dict(case, b=bq, e=eq, ordinal=self.req_no)

        def bad(sig, detail):
            acc.violation(f"C06:{sig}/{klass}", f"ResendRequest({bq},{eq}) L={L} [{tag}]: " + detail, c)

        self.collect("auto")
        fr = b.frame("2", ep._session.next_num_in, [(7, bq), (16, eq)])
        b.feed(fr)
        reply = self.collect("reply")
        # ---- side effects
        live1, stored1, state1 = ep._session.next_num_out, self.stored_out(), ep.connection_state
        if live1 != live0:
            bad("side-effect/live-counter", f"live next_num_out {live0} -> {live1}")
        if stored1 != stored0:
            bad("side-effect/stored-counter", f"stored next_num_out {stored0} -> {stored1}")
        if state1 != state0:
            bad("side-effect/state", f"connection state {state0.name} -> {state1.name}")
        rows1 = self.journal_rows()
        lo, hi = (bq, t) if valid else (1, 0)
        for n in sorted(set(rows0) | set(rows1)):
            if lo <= n <= hi:
                continue
            if rows0.get(n) != rows1.get(n):
                bad("side-effect/journal-outside-range", f"journal row {n} changed: {'deleted' if n not in rows1 else 'rewritten' if n in rows0 else 'created'}")
                break
        for raw, p in reply:
            r = ref_check_frame(raw)
            if r:
                bad("wire-malformed", f"{r}: {raw!r}")
        if not valid:
            return klass, 0, 0
        # ---- chain
        cursor = bq
        retrans = set()
        ok = True
        for raw, p in reply:
            mt, n = ref_get(p, 35), int(ref_get(p, 34))
            if mt == "4" and ref_get(p, 123) == "Y":
                new = int(ref_get(p, 36))
                if n != cursor:
                    bad("chain/gapfill-not-contiguous", f"GapFill 34={n} but the chain stands at {cursor}")
                    ok = False
                    break
                if new <= n:
                    bad("chain/gapfill-not-forward", f"GapFill 34={n} NewSeqNo={new}")
                    ok = False
                    break
                if new > t + 1:
                    bad("chain/beyond-range", f"GapFill {n}->{new} extends beyond the requested end {t}")
                    ok = False
                    break
                cursor = new
            elif ref_get(p, 43) == "Y":
                if n != cursor:
                    bad("chain/retransmission-not-contiguous", f"retransmission 34={n} but the chain stands at {cursor}")
                    ok = False
                    break
                if n > t:
                    bad("chain/beyond-range", f"retransmission of {n} beyond the requested end {t}")
                    ok = False
                    break
                orig = self.first.get(n)
                if orig is None or orig[1] is None:
                    bad("chain/retransmits-unsent", f"retransmission under {n}, which was never sent")
                else:
                    kind0, raw0, p0 = orig
                    if kind0 == "sess":
                        bad("retransmits-session-message", f"session message {ref_get(p0, 35)} under {n} was retransmitted")
                    if ref_get(p, 35) != ref_get(p0, 35):
                        bad("retransmission/msgtype", f"number {n}: type {ref_get(p, 35)} vs original {ref_get(p0, 35)}")
                    if ref_get(p, 122) != ref_get(p0, 52):
                        bad("retransmission/origsendingtime", f"number {n}: OrigSendingTime {ref_get(p, 122)!r} vs original SendingTime {ref_get(p0, 52)!r}")
                    b0 = [x for x in p0 if x[0] not in HDR]
                    b1 = [x for x in p if x[0] not in HDR]
                    if b0 != b1:
                        bad("retransmission/body", f"number {n}: body {b1} vs original {b0}")
                retrans.add(n)
                cursor = n + 1
            else:
                bad("chain/foreign-frame", f"frame {mt} 34={n} in the reply is neither a retransmission nor a GapFill")
                ok = False
                break
        if ok and cursor != t + 1:
            bad("chain/incomplete" if cursor <= t else "chain/beyond-range", f"chain ends at {cursor - 1}, requested range ends at {t}")
        if ok:
            must = {n for n in range(bq, t + 1) if self.first.get(n, ("hole",))[0] == "app" and n in rows0}
            free = {n for n in range(bq, t + 1) if self.first.get(n, ("hole",))[0] == "free" and n in rows0}
            missing = must - retrans
            extra = retrans - must - free
            if missing:
                bad("not-retransmitted", f"replayable application message(s) {sorted(missing)} were gap-filled")
            if extra:
                kinds = {n: self.first.get(n, ("never-sent",))[0] for n in sorted(extra)}
                bad("retransmitted-unexpectedly", f"{kinds} were retransmitted (declined / deleted / never sent)")
        kinds_in = {self.first.get(n, ("hole",))[0] for n in range(bq, t + 1)}
        return klass, len(retrans), int("app" in kinds_in and len(kinds_in) > 1)


def run_journal(acc, role, state, slots, requests, origin, next_out=1):
    """slots: list of slot kinds; requests: list of (b_rel, e_rel) or None to enumerate all."""
    case = {"role": role, "state": state, "slots": list(slots), "requests": requests, "next_out": next_out}
    d = Driver(role, state, next_out)
    try:
        for s in slots:
            err = d.add_slot(s)
            if err:
                # an ordinary send on a logged-on endpoint must work (before any request was served this is a setup problem)
                raise RuntimeError(f"journal slot could not be produced: {err}")
        L = d.ep._session.next_num_out - 1
        if requests is None:
            reqs = []
            for bq in range(-1, L + 4):
                for eq in sorted({0} | set(range(bq - 1, L + 4))):
                    reqs.append((bq, eq))
        else:
            reqs = requests
        seen = set()
        for item in reqs:
            if item == "reset":
                # the public reset of both sequence numbers (a new numbering epoch on the same connection object)
                r = d.b.w.call(d.ep.reset_seq_num())
                if r[0] != "ok":
                    acc.violation("C06:reset_seq_num-raises", f"reset_seq_num() raised {r[1]!r}", dict(case))
                    break
                d.first = {}
                d.collect("auto")
                seen = set()
                acc.klass("epoch-reset")
                continue
            if item in ("clock-back", "clock-fwd"):
                # the wall clock is stepped (NTP correction, VM resume): later frames carry an earlier / much later SendingTime
                lp = d.b.w.loop
                lp.wall_offset = getattr(lp, "wall_offset", 0.0) + (-3.0 if item == "clock-back" else 3600.0)
                acc.klass(item)
                continue
            if isinstance(item, str):
                err = d.add_slot(item)
                if err:
                    acc.violation("C06:side-effect/later-send-fails", f"after {d.req_no} ResendRequest(s) had been served: {err}", dict(case))
                    break
                continue
            bq, eq = item
            rep = (bq, eq) in seen
            seen.add((bq, eq))
            klass, nre, mixed = d.request(acc, bq, eq, case, origin)
            nt = mixed or rep or klass in ("valid-bounded",) or klass.startswith("invalid")
            acc.case((role, state, tuple(slots), bq, eq, d.req_no) if nt else None,
                     cls=[f"class={klass}", f"state={state}", f"origin={origin}"] + (["repeated-request"] if rep else []) + (["mixed-range"] if mixed else []),
                     sample={"role": role, "state": state, "journal": list(slots), "L": d.ep._session.next_num_out - 1, "request": [bq, eq], "retransmitted": nre}
                     if nt and mixed and len(acc.samples) < 5 and nre >= 2 else None)
    finally:
        d.b.close()


def exhaustive(acc, role, state, nslots, part, parts):
    if part == 0:
        for slots in (["app", "app"], ["app", "hb", "appg"]):
            run_journal(acc, role, state, slots, [(1, 0), (2, 0), (1, 0), (2, 3), "reset", "app", "app", "hb", "app", (1, 0), (2, 0), (2, 3), "reset", "app", (1, 0)], "epochs")
            run_journal(acc, role, state, slots, [(1, 0), "clock-back", (1, 0), (2, 3), "app", "clock-fwd", (1, 0), "clock-back", "app", (2, 0)], "clock-steps")
            # a long-lived session: outbound numbers crossing 999999 -> 1000000 (EndSeqNo 999999 is an ordinary bounded end)
            M = 1000000
            run_journal(acc, role, state, ["app", "hb", "app", "app", "app", "hb", "app", "app"],
                        [(M - 4, M - 1), (M - 3, 0), (M - 2, M), (M - 4, M - 1), (M, M + 2), (M - 1, M - 1), (M - 1, M)], "beyond-1e6", next_out=M - 4)
            run_journal(acc, role, state, ["app", "app", "hb", "app"], [(2**31 - 2, 0), (2**31 - 1, 2**31), (2**31, 2**31)], "beyond-2^31", next_out=2**31 - 2)
    k = 0
    for L in range(0, nslots + 1):
        for slots in itertools.product(SLOTS, repeat=L):
            k += 1
            if k % parts != part:
                continue
            run_journal(acc, role, state, slots, None, "exhaustive")
            # the same, every request twice in a row
            if L == nslots and k % (parts * 7) == part:
                d_reqs = []
                Lx = 2 + sum(2 if s == "hole-skip" else 1 for s in slots)
                for bq in range(1, Lx + 1):
                    for eq in (0, bq, Lx - 1):
                        d_reqs += [(bq, eq), (bq, eq)]
                run_journal(acc, role, state, slots, d_reqs, "exhaustive-repeat")


def bulk(acc, role, n):
    """A long journal (more rows than any batch / page size one would pick) requested as a whole, from the middle, and bounded."""
    slots = (["app"] * 9 + ["hb"]) * (n // 10)
    for k in range(95, len(slots), 190):
        slots[k] = "hole-skip"  # unused numbers inside the journal
    L = len(slots) + 2 + 2 * sum(1 for x in slots if x == "hole-skip")
    run_journal(acc, role, "active", slots, [(1, 0), (L - 1200, 0), (2, L - 3), (L - 5, 0), (3, 3 + 512), (3, 2 + 512), (4, 4 + 1024), (255, 262), (9, 11), (99, 101), (999, 1001)], "bulk")
    acc.klass("bulk-journal")


slot = st.sampled_from(SLOTS + ["app", "app", "appg"])
item = st.one_of(st.just("reset"), st.sampled_from(["clock-back", "clock-back", "clock-fwd"]), st.tuples(st.integers(-1, 36), st.integers(-1, 36)), st.tuples(st.integers(1, 30), st.just(0)), st.tuples(st.integers(1, 12), st.integers(1, 12)),
                 st.sampled_from(SLOTS))


def hyp_shard(acc, n, seed):
    strat = st.tuples(st.sampled_from(["acceptor", "initiator"]), st.sampled_from(["active", "awaiting"]), st.lists(slot, min_size=2, max_size=30),
                      st.lists(item, min_size=1, max_size=12))
    run_given(strat, lambda x: run_journal(acc, x[0], x[1], x[2], [tuple(i) if isinstance(i, tuple) else i for i in x[3]], "hyp"), n, seed)


def EXHAUSTIVE(tier):
    return False


def plan(tier, seed):
    jobs = []
    nslots = 3 if tier == "quick" else 4
    for role in ("acceptor", "initiator"):
        for state in ("active", "awaiting"):
            parts = 3 if tier == "quick" else 4
            jobs += [("exhaustive", {"role": role, "state": state, "nslots": nslots, "part": i, "parts": parts}) for i in range(parts)]
    jobs += [("bulk", {"role": r, "n": 1300 if tier == "quick" else 5000}) for r in ("acceptor", "initiator")]
    n, k = (150, 4) if tier == "quick" else (6000, 12)
    jobs += [("hyp_shard", {"n": n, "seed": derive_seed(seed, PROPERTY, i)}) for i in range(k)]
    return jobs


def replay(acc, case):
    reqs = case["requests"]
    if reqs is not None:
        reqs = [tuple(r) if isinstance(r, list) else r for r in reqs]
    run_journal(acc, case["role"], case["state"], case["slots"], reqs, "replay", next_out=case.get("next_out") or 1)
