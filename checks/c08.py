"""C08 - the journal survives a process crash at any point.

Hypothesis-generated operation lists on a file-backed Journaler; for every
list, every crash point (before/after each SQL statement and commit, after
each completed operation, plus normal close) is realised as os._exit in a
forked child; the parent reopens the file and compares with a dict model.
"""
import os
import shutil
import sys
import tempfile

from hypothesis import strategies as st

from asyncfix.errors import DuplicateSeqNoError
from asyncfix.journaler import Journaler
from asyncfix.message import MessageDirection
from vlib import crashdb
from vlib.hyp import run_given
from vlib.runner import derive_seed

PROPERTY = "C08"
LEVEL = "fault_enumeration"
RULE = (
    "Hypothesis lists of journal operations (open, create_or_load, persist_msg in/out with fresh "
    "and duplicate numbers, set_seq_num up/down, reset to 1/1, normal close + reopen) on a real "
    "file; for each list EVERY crash point (before and after each execute() and commit(), after "
    "each completed operation, plus a normal close) is taken: in the 'fork' shard for real via "
    "os._exit(137) in a forked child, in the other shards by copying the on-disk files (database + "
    "rollback journal) at that instant, which is what process death leaves behind (the fork shard "
    "cross-checks that both engines observe the same state); a fresh Journaler on the file must show S_{i-1} or S_i for a crash inside op i and "
    "exactly S_i at operation boundaries. One evaluation = one (list, crash point). Non-trivial = "
    "list with a set_seq_num followed by another op, or a store after a duplicate error."
)
ASSUMPTIONS = [
    "SQLite's rollback-journal atomic commit is trusted; process death = os._exit (no power loss, no torn pages)",
    "crash points inside sqlite's C code are not reachable",
    "set_seq_num receives a session object in sync with the stored counters (as a connection keeps it)",
]

IN, OUT = MessageDirection.INBOUND, MessageDirection.OUTBOUND
DIRS = {"in": IN, "out": OUT}
PAIRS = [("A", "B"), ("B", "A"), ("X Y", "it's")]

num = st.one_of(st.integers(1, 8), st.integers(1, 8), st.sampled_from([50, 2**31, 2**40]))
sess = st.integers(0, 2)
op = st.one_of(
    st.tuples(st.just("create"), sess),
    st.tuples(st.just("persist"), sess, st.sampled_from(["in", "out"]), num, st.binary(max_size=6)),
    st.tuples(st.just("persist"), sess, st.sampled_from(["in", "out"]), num, st.binary(max_size=6)),
    st.tuples(st.just("persist"), sess, st.sampled_from(["in", "out"]), num, st.binary(max_size=6)),
    st.tuples(st.just("set"), sess, st.one_of(st.none(), num), st.one_of(st.none(), num)),
    st.tuples(st.just("reset"), sess),
    st.tuples(st.just("reopen")),
)


def frame(n, pl):
    return b"8=FIX.4.4\x019=00\x0135=D\x0134=" + str(n).encode() + b"\x01" + pl


def model_states(ops):
    """States S_-1(empty), S_0(open) .. S_n as (sessions{pair:[in,out]}, rows frozenset)."""
    sessions = {}
    rows = {}  # (pair, dir, n) -> bytes

    def snap():
        return ({k: tuple(v) for k, v in sessions.items()}, dict(rows))

    states = [snap(), snap()]  # before open, after open
    flags = set()
    had_dup = False
    had_set = False
    for o in ops:
        k = o[0]
        if had_set:
            flags.add("op-after-set")
        if k in ("create", "persist", "set", "reset"):
            pair = PAIRS[o[1]]
            if pair not in sessions:
                sessions[pair] = [1, 1]
        if k == "persist":
            _, si, dn, n, pl = o
            key = (pair, dn, n)
            if key in rows:
                had_dup = True
            else:
                rows[key] = frame(n, pl)
                sessions[pair][0 if dn == "in" else 1] = n + 1
                if had_dup:
                    flags.add("store-after-dup")
        elif k in ("set", "reset"):
            if k == "reset":
                ni, no = 1, 1
            else:
                _, si, no, ni = o
            if ni is not None:
                sessions[pair][0] = ni
            if no is not None:
                sessions[pair][1] = no
            for key in [key for key in rows if key[0] == pair]:
                lim = sessions[pair][0] if key[1] == "in" else sessions[pair][1]
                if key[2] >= lim:
                    del rows[key]
            had_set = True
        states.append(snap())
    return states, flags


def execute(path, ops, quiet=0):
    """Runs the list against a real journal (crash hooks active, except during the first
    `quiet` operations, which only build up state). Index 0 = open."""
    C = crashdb.CTL
    C.enabled = quiet == 0
    C.begin_op(0)
    j = Journaler(path)
    C.after_op(0)
    for i, o in enumerate(ops, start=1):
        C.enabled = i > quiet
        C.begin_op(i)
        k = o[0]
        if k == "reopen":
            j.__del__()
            j.__class__ = _Dead
            j = Journaler(path)
        else:
            pair = PAIRS[o[1]]
            ses = j.create_or_load(*pair)
            if k == "persist":
                try:
                    j.persist_msg(frame(o[3], o[4]), ses, DIRS[o[2]])
                except DuplicateSeqNoError:
                    pass
            elif k == "set":
                j.set_seq_num(ses, next_num_out=o[2], next_num_in=o[3])
            elif k == "reset":
                j.set_seq_num(ses, next_num_out=1, next_num_in=1)
        C.after_op(i)
    return j


class _Dead:
    def __del__(self):
        pass


def observe(path):
    """A fresh Journaler on the file, read in an order that creates nothing first."""
    crashdb.CTL.enabled = False
    try:
        j = Journaler(path)
        listed = j.sessions()
        allm = j.get_all_msgs()
        sessions = {}
        rows = {}
        bykey = {}
        for pair, s in listed.items():
            bykey[s.key] = pair
        for pair in listed:
            s = j.create_or_load(*pair)
            sessions[pair] = (s.next_num_in, s.next_num_out)
            for dn, d in DIRS.items():
                for b in j.recover_messages(s, d, 0, sys.maxsize):
                    n = Journaler.find_seq_no(b)
                    rows[(pair, dn, n)] = b
        rows2 = {}
        for n, b, d, key in allm:
            rows2[(bykey.get(key, ("?", key)), "in" if d == 0 else "out", n)] = b
        j.__del__()
        j.__class__ = _Dead
        return (sessions, rows), rows2
    finally:
        crashdb.CTL.enabled = True


def _fmt(state):
    s, r = state
    return f"sessions={s} rows={sorted((k[0], k[1], k[2]) for k in r)}"


def normalise(ops):
    """Make session creation an operation of its own (explicit create before first use),
    so that every operation is a single journal call."""
    out, seen = [], set()
    for o in ops:
        if o[0] != "reopen":
            if o[1] not in seen:
                seen.add(o[1])
                out.append(("create", o[1]))
                if o[0] == "create":
                    continue
        out.append(tuple(o))
    return out


def _judge_point(acc, ops, states, flags, p, entry, obs, obs2, engine, case0=None):
    opi, kind, label = entry
    opname = "open" if opi == 0 else ops[opi - 1][0]
    case = {"ops": [list(o) for o in ops], "point": p, "engine": engine} if case0 is None else dict(case0, point=p)
    nontrivial = bool(flags)
    if isinstance(obs, BaseException):
        acc.violation(f"C08:reopen-raises/{opname}/{kind}", f"reopening after crash at {label} of op#{opi} raised {type(obs).__name__}: {obs}", case)
        acc.case(None, cls="reopen-raises")
        return
    if obs[1] != obs2:
        acc.violation("C08:views-disagree", f"get_all_msgs and recover_messages disagree after crash: {sorted(obs[1])} vs {sorted(obs2)}", case)
    before, after = states[opi], states[opi + 1]
    if kind == "inside":
        ok = obs == before or obs == after
        exp = f"S[{opi-1}] or S[{opi}]"
    elif kind == "boundary":
        ok = obs == before
        exp = f"S[{opi-1}] (crash before the first statement of op#{opi})"
    else:
        ok = obs == after
        exp = f"S[{opi}] (op#{opi} had returned)"
    if not ok:
        if kind == "after":
            what = "completed-op-lost" if obs == before else "completed-op-corrupt"
        elif kind == "boundary":
            what = "state-changed-before-op"
        else:
            what = "non-atomic"
        acc.violation(
            f"C08:{what}/{opname}/{label}",
            f"crash at point {p} ({label}, {kind}) of op#{opi} {opname}: observed {_fmt(obs)[:600]}; expected {exp}: before={_fmt(before)[:600]} after={_fmt(after)[:600]}",
            case,
        )
    acc.case(
        ((tuple(ops), p) if case0 is None else (repr(case0), p)) if nontrivial else None,
        cls=[f"op={opname}", f"kind={kind}", f"engine={engine}"] + sorted(flags) + (["bulk-journal"] if case0 else []),
        sample={"ops": [list(o) for o in ops], "crash_point": p, "at": [opi, kind, label], "engine": engine}
        if nontrivial and p in (7, "close") and case0 is None else None,
    )


def _observe_safe(path):
    try:
        return observe(path)
    except BaseException as e:  # noqa
        return e, None


def run_list(acc, ops, tmpdir, only_point=None, engine="snapshot", quiet=0, case0=None):
    """engine=snapshot: one execution, the on-disk files are copied at every crash point
    (what process death would leave behind) and each image is reopened.
    engine=fork: additionally every crash point is taken for real by os._exit(137) in a
    forked child, and the two observations must agree (harness self-check)."""
    crashdb.install()
    C = crashdb.CTL
    if not quiet:
        ops = normalise(ops)
    states, flags = model_states(ops)
    path = os.path.join(tmpdir, "live.db")
    _rm(path)
    images = {}

    def snap(count, opi, kind, label):
        img = os.path.join(tmpdir, f"img{count}.db")
        for suf in ("", "-journal", "-wal", "-shm"):
            if os.path.exists(path + suf):
                shutil.copyfile(path + suf, img + suf)
        images[count] = img

    C.reset()
    C.hook = snap
    j = execute(path, ops, quiet)
    C.hook = None
    log = list(C.log)
    j.__del__()
    j.__class__ = _Dead
    snap("close", len(ops), "after", "normal-close")
    entries = {i + 1: e for i, e in enumerate(log)}
    entries["close"] = (len(ops), "after", "normal-close")
    points = list(entries) if only_point is None else [only_point]
    snap_obs = {}
    for p in points:
        img = images[p]
        obs, obs2 = _observe_safe(img) if os.path.exists(img) else (({}, {}), {})
        snap_obs[p] = obs
        if engine == "snapshot":
            _judge_point(acc, ops, states, flags, p, entries[p], obs, obs2, "snapshot", case0)
        _rm(img)
    _rm(path)
    if engine == "fork":
        for p in points:
            fpath = os.path.join(tmpdir, "f.db")
            _rm(fpath)
            pid = os.fork()
            if pid == 0:
                try:
                    C.reset()
                    if p == "close":
                        j = execute(fpath, ops)
                        j.__del__()  # what `del journaler` / interpreter exit does
                        os._exit(0)
                    C.target = p
                    C.mode = "exit"
                    execute(fpath, ops)
                    os._exit(3)  # point not reached
                except BaseException:  # noqa
                    import traceback

                    traceback.print_exc()
                    os._exit(4)
            _, status = os.waitpid(pid, 0)
            code = os.waitstatus_to_exitcode(status)
            if code != (0 if p == "close" else 137):
                raise RuntimeError(f"crash child exited {code} at point {p} ops={ops}")
            obs, obs2 = _observe_safe(fpath)
            so = snap_obs[p]
            if not isinstance(obs, BaseException) and not isinstance(so, BaseException) and obs != so:
                raise RuntimeError(f"snapshot engine and real process death disagree at point {p} of {ops}: {so} vs {obs}")
            _judge_point(acc, ops, states, flags, p, entries[p], obs, obs2, "fork")
            _rm(fpath)
        acc.extra["forked_children"] = acc.extra.get("forked_children", 0) + len(points)
    acc.extra["lists"] = acc.extra.get("lists", 0) + 1


def _rm(path):
    for suf in ("", "-journal", "-wal", "-shm"):
        try:
            os.unlink(path + suf)
        except FileNotFoundError:
            pass


def _tmp():
    base = "/dev/shm" if os.path.isdir("/dev/shm") and os.access("/dev/shm", os.W_OK) else None
    return tempfile.mkdtemp(prefix="verif_c08_", dir=base)


FIXED = [
    [("create", 0), ("set", 0, 50, 60)],
    [("create", 0), ("persist", 0, "out", 1, b"a"), ("persist", 0, "out", 2, b"b"), ("set", 0, 2, None), ("persist", 0, "out", 2, b"c")],
    [("persist", 0, "in", 1, b""), ("persist", 0, "in", 1, b"x"), ("persist", 0, "in", 2, b"y"), ("reset", 0), ("reopen",), ("persist", 1, "out", 1, b"")],
    [("persist", 0, "out", 3, b"q"), ("persist", 1, "out", 3, b"r"), ("set", 1, 1, 1), ("create", 2)],
]


BULK_SUFFIX = {
    "reset": [("reset", 0)],
    "truncate-out": [("set", 0, 3, None), ("persist", 0, "out", 3, b"n")],
    "truncate-in": [("set", 0, None, 5), ("persist", 0, "in", 5, b"z")],
    "reset-then-store": [("reset", 0), ("persist", 0, "out", 1, b"n"), ("persist", 1, "out", 1, b"m")],
}


def bulk(acc, which, only_point=None):
    """A journal larger than sqlite's page cache (about 3 MB of messages), then a truncating
    operation with every crash point: large transactions spill dirty pages to the database file
    before commit, which only a real rollback journal makes safe."""
    pay = b"x" * 1100
    prefix = [("create", 0), ("create", 1)]
    prefix += [("persist", 0, "out", n, pay) for n in range(1, 1301)]
    prefix += [("persist", 0, "in", n, pay) for n in range(1, 1301)]
    ops = prefix + BULK_SUFFIX[which]
    d = _tmp()
    try:
        run_list(acc, ops, d, only_point=only_point, quiet=len(prefix), case0={"bulk": which})
    finally:
        shutil.rmtree(d, ignore_errors=True)
    acc.extra["bulk_journal_bytes"] = 2600 * 1100


def shard(acc, n, seed, max_ops, engine="snapshot", fixed=False):
    d = _tmp()
    try:
        if fixed:
            for ops in FIXED:
                run_list(acc, ops, d, engine=engine)
        run_given(st.lists(op, min_size=1, max_size=max_ops), lambda ops: run_list(acc, ops, d, engine=engine), n, seed)
    finally:
        shutil.rmtree(d, ignore_errors=True)


def plan(tier, seed):
    # forks are (nearly) serialised system-wide in this sandbox (~150/s): one fork shard only
    if tier == "quick":
        jobs = [("shard", {"n": 25, "seed": derive_seed(seed, PROPERTY, "fork"), "max_ops": 8, "engine": "fork", "fixed": True})]
        jobs += [("shard", {"n": 120, "seed": derive_seed(seed, PROPERTY, i), "max_ops": 10}) for i in range(12)]
        jobs += [("bulk", {"which": w}) for w in ("reset", "truncate-out")]
    else:
        jobs = [("shard", {"n": 500, "seed": derive_seed(seed, PROPERTY, "fork"), "max_ops": 12, "engine": "fork", "fixed": True})]
        jobs += [("shard", {"n": 2500, "seed": derive_seed(seed, PROPERTY, i), "max_ops": 20}) for i in range(14)]
        jobs += [("bulk", {"which": w}) for w in BULK_SUFFIX]
    return jobs


def replay(acc, case):
    if "bulk" in case:
        bulk(acc, case["bulk"], only_point=case["point"])
        return
    d = _tmp()
    try:
        ops = [tuple(o) for o in case["ops"]]
        run_list(acc, ops, d, only_point=case["point"], engine=case.get("engine", "snapshot"))
    finally:
        shutil.rmtree(d, ignore_errors=True)
