"""C07 - no application message is lost, duplicated or reordered across connection loss."""
from hypothesis import strategies as st

from asyncfix.connection import ConnectionState
from vlib.duo import Duo, quiesce
from vlib.hyp import run_given
from vlib.runner import derive_seed

PROPERTY = "C07"
LEVEL = "exploration"
BOUNDS = {"quick": dict(depth=10, sends=3, breaks=2, kinds=["eof"], logout=False),
          "thorough": dict(depth=11, sends=3, breaks=2, kinds=["eof", "reset", "oserror", "drain"], logout=True)}
WALK = {"quick": 60, "thorough": 200}


def RULE(tier):
    b = BOUNDS[tier]
    return (
        "Two real endpoints (AsyncFIXClient and AsyncFIXDummyServer subclasses that only record callbacks and send Logon from "
        "on_connect, each with its own journal; counters starting at 1 or, in part of the walks, just below 10 / 100 / 1000 / 10000) joined by a simulated link whose frames are delivered one at a time by the "
        "harness. Actions: application send on either side (unique payload; accepted iff send_msg returns), deliver the next "
        "in-flight frame in either direction (or all in-flight frames of one direction coalesced into one read), break the connection (everything in flight lost; each end sees EOF / "
        "ConnectionResetError on read / OSError on read / a failing drain; or right behind a frame that is still read, so that the reader notices through the failing write of whatever it sends while handling it), end the connection gracefully from either side (public disconnect() with a Logout; counted against the break budget; in walks, fixed sequences and the thorough DFS), reconnect (real connect() / _handle_accept() over "
        f"fresh streams + Logon), and (walks and fixed sequences only) a keep-alive probe (TestRequest, answered by the peer's Heartbeat), switching a side's application to answering every received message from inside on_message, arming a side's on_message to call disconnect() once, and arming a side's on_message to raise once after it recorded the message. Bounded-exhaustive DFS over all action sequences up to depth {b['depth']} with <= {b['sends']} sends "
        f"and <= {b['breaks']} breaks of kinds {b['kinds']} (each sequence re-executed from scratch, deduplicated by a hash of both "
        f"state enums, the four counters, both journals, FIFO contents and delivery counts), plus Hypothesis walks up to {WALK[tier]} "
        "actions with all break kinds. Every explored sequence is closed (deliver all, watchdog for an end that has not noticed, "
        "reconnect, deliver all). Oracle: during the run each side's delivered payloads are a prefix of what the other side's "
        "send accepted; at closure they are equal (nothing lost, duplicated or reordered), both ends are ACTIVE, each next_num_in "
        "equals the peer's next_num_out, and every frame passed the reference framer. Non-trivial = a break with a non-empty FIFO "
        "after an accepted send; distinct by action sequence."
    )


ASSUMPTIONS = [
    "an application handler that raises has still received the message (it is recorded before the raise): it counts as delivered once",
    "breaks happen at frame boundaries only; the simulated transport follows asyncio stream semantics (write never raises, drain may)",
    "FREE: sends refused while disconnected or mid-logon; payloads whose send raised a transport error after a number was allocated may or may not arrive (never twice)",
    "'after quiescence' is read as bounded-time safety: closure is capped at 400 deliveries (hitting the cap is reported as its own signature)",
]
KINDS = ["eof", "reset", "oserror", "drain"]


def enabled(d, budget):
    acts = []
    if budget["sends"] > 0:
        acts += [("send", "c"), ("send", "s")]
    for frm in ("c", "s"):
        if d.can_deliver(frm):
            acts.append(("deliver", frm))
            if len([x for x in d.fifo(frm) if not isinstance(x, bytes) or True]) >= 2 and isinstance(d.fifo(frm)[0], bytes) and isinstance(d.fifo(frm)[1], bytes):
                acts.append(("deliver_all", frm))
    if d.link_alive() and budget["breaks"] > 0:
        for k in budget["kinds"]:
            acts.append(("break", k))
        if budget.get("logout", True):
            for frm in ("c", "s"):
                if d.can_deliver(frm) and isinstance(d.fifo(frm)[0], bytes):
                    acts.append(("deliver_brk", frm))
        # a graceful end (disconnect() with a Logout) also ends the connection; frames in flight TO the leaving side are lost
        for side in ("c", "s"):
            if budget.get("logout", True) and d.ep[side].connection_state.name in ("ACTIVE", "RESENDREQ_AWAITING", "RESENDREQ_HANDLING"):
                acts.append(("logout", side))
    if d.can_reconnect():
        acts.append(("reconnect",))
    return acts


def apply(d, a, flags):
    if a[0] == "send":
        r, pid = d.send(a[1])
        flags.add(f"send-{r}")
        return r
    if a[0] == "deliver":
        d.deliver(a[1])
    elif a[0] == "deliver_brk":
        if d.accepted["c"] or d.accepted["s"]:
            flags.add("break-with-frames-in-flight")
        flags.add("break-noticed-on-write")
        d.deliver_breaking(a[1])
    elif a[0] == "deliver_all":
        d.deliver_all(a[1])
        flags.add("coalesced-read")
    elif a[0] == "break":
        inflight = len([x for x in d.fifo("c")]) + len([x for x in d.fifo("s")])
        if inflight and (d.accepted["c"] or d.accepted["s"]):
            flags.add("break-with-frames-in-flight")
        flags.add(f"break-{a[1]}")
        d.brk(a[1])
    elif a[0] == "logout":
        if d.fifo(d.other(a[1])) and (d.accepted["c"] or d.accepted["s"]):
            flags.add("break-with-frames-in-flight")
        d.logout(a[1])
        flags.add("graceful-logout")
    elif a[0] == "reconnect":
        d.reconnect()
        flags.add("reconnect")
    elif a[0] == "testreq":
        if d.connected(a[1]) and d.link_alive():
            d.send_test_req(a[1])
            flags.add("keep-alive-traffic")
    elif a[0] == "counters":
        pass  # consumed when the pair was created
    elif a[0] == "responder":
        d.set_responder(a[1])
        flags.add("re-entrant-responder")
    elif a[0] == "armd":
        d.ep[a[1]].disconnect_next += 1
        flags.add("handler-disconnects")
    elif a[0] == "arm":
        d.ep[a[1]].raise_next += 1
        flags.add("handler-raises")
    return None


def prefix_ok(d):
    """During the run: what each side has received is a prefix of what the other side's sends accepted."""
    out = []
    for to in ("c", "s"):
        frm = d.other(to)
        got = [p for p in d.delivered(to) if p not in d.maybe[frm]]
        exp = d.accepted[frm]
        if got != exp[:len(got)]:
            out.append((to, got, exp))
        if len(set(d.delivered(to))) != len(d.delivered(to)):
            out.append((to, "dup", d.delivered(to)))
    return out


def run_sequence(acc, seq, origin, judge=True):
    """Executes the action sequence on a fresh pair; returns (duo-signature, enabled-actions) or judges at closure."""
    d = Duo(start=tuple(seq[0][1:]) if seq and seq[0][0] == "counters" else None)
    flags = set()
    case = {"seq": [list(a) for a in seq]}
    if seq and seq[0][0] == "counters":
        flags.add("counters-near-digit-boundary")

    def bad(sig, detail):
        acc.violation("C07:" + sig, detail + f" | seq={seq}", case)

    try:
        for i, a in enumerate(seq):
            apply(d, a, flags)
            po = prefix_ok(d)
            if po:
                to, got, exp = po[0]
                if got == "dup":
                    bad("duplicate-delivery", f"after action #{i} {a}: side {to} received a payload twice: {exp}")
                else:
                    bad("out-of-order-or-unsent-delivery", f"after action #{i} {a}: side {to} received {got}, peer's accepted sends are {exp}")
                break
        if not judge:
            return d.sig(), d
        n, capped = quiesce(d)
        if capped:
            bad("closure/endless-chatter", f"endpoints still exchange frames after {n} deliveries in zero virtual time")
        else:
            for to in ("c", "s"):
                frm = d.other(to)
                got_all = d.delivered(to)
                got = [p for p in got_all if p not in d.maybe[frm]]
                exp = d.accepted[frm]
                if got != exp:
                    lost = [p for p in exp if p not in got]
                    dup = sorted({p for p in got_all if got_all.count(p) > 1})
                    what = "lost" if lost else ("duplicated" if dup else "reordered")
                    bad(f"closure/{what}/{'c->s' if to == 's' else 's->c'}", f"side {to} received {got_all}, peer's accepted sends {exp} (lost {lost}, duplicated {dup}); "
                        f"states c={d.c.connection_state.name} s={d.s.connection_state.name}")
            if d.c.connection_state != ConnectionState.ACTIVE or d.s.connection_state != ConnectionState.ACTIVE:
                bad("closure/not-active", f"after closure c={d.c.connection_state.name} s={d.s.connection_state.name}")
            elif d.c._session.next_num_in != d.s._session.next_num_out or d.s._session.next_num_in != d.c._session.next_num_out:
                bad("closure/counters", f"c in/out {d.c._session.next_num_in}/{d.c._session.next_num_out}, s in/out {d.s._session.next_num_in}/{d.s._session.next_num_out}")
        for why, fr in d.check_frames():
            bad("wire-malformed", f"{why}: {fr[:200]!r}")
        nt = "break-with-frames-in-flight" in flags
        acc.case(tuple(seq) if nt else None, cls=[f"origin={origin}"] + sorted(flags),
                 sample={"seq": [list(a) for a in seq], "delivered_to_server": d.delivered("s"), "delivered_to_client": d.delivered("c")}
                 if nt and len(acc.samples) < 4 and "reconnect" in flags and d.delivered("s") else None)
        acc.extra["frames_checked"] = acc.extra.get("frames_checked", 0) + d.frames_checked
        return None, None
    finally:
        d.close()


def dfs(acc, tier, first, parts):
    b = BOUNDS[tier]
    seen = set()

    def rec(seq, depth, sends, breaks):
        d = Duo()
        flags = set()
        try:
            for a in seq:
                apply(d, a, flags)
            sig = d.sig()
            key = (sig, sends, breaks)
            acts = enabled(d, {"sends": sends, "breaks": breaks, "kinds": b["kinds"], "logout": b["logout"]}) if depth > 0 else []
        finally:
            d.close()
        best = seen_depth.get(key, -1)
        if best >= depth:
            return
        seen_depth[key] = depth
        run_sequence(acc, seq, "dfs")
        for i, a in enumerate(acts):
            if len(seq) == 1 and first is not None and i % parts != first:
                continue
            rec(seq + [a], depth - 1, sends - (a[0] == "send"), breaks - (a[0] == "break"))

    seen_depth = {}
    rec([], b["depth"], b["sends"], b["breaks"])
    acc.extra["dfs_states"] = acc.extra.get("dfs_states", 0) + len(seen_depth)


step = st.tuples(st.integers(0, 1000), st.sampled_from(KINDS))


def run_walk(acc, steps):
    """Random walk: the chosen actions are resolved against the enabled set of a live pair, then judged by re-execution."""
    pre = [None, None, ("counters", 8, 97), ("counters", 98, 8), ("counters", 998, 9998)][steps[0][0] % 5] if steps else None
    d = Duo(start=pre[1:] if pre else None)
    seq = [pre] if pre else []
    flags = set()
    try:
        for choice, kind in steps:
            acts = enabled(d, {"sends": 99, "breaks": 99, "kinds": [kind]})
            # bias: a break is often followed by reconnect; deliveries are frequent
            cat = ["send", "deliver", "deliver_all", "break", "reconnect", "send", "deliver", "any"][choice % 8]
            if cat == "break" and choice % 3 == 0:
                cat = "logout"
            elif cat == "break" and choice % 3 == 1:
                cat = "deliver_brk"
            if choice % 41 == 0:
                acts = [("arm", "c"), ("arm", "s"), ("armd", "c"), ("armd", "s")]
            elif choice % 37 == 0:
                acts = [("testreq", "c"), ("testreq", "s")]
            elif choice % 29 == 0 and len(seq) < 6:
                acts = [("responder", "c"), ("responder", "s")]
            pool = [a for a in acts if a[0] == cat] or ([a for a in acts if a[0] == "deliver"] if cat == "deliver_all" else []) or ([a for a in acts if a[0] == "reconnect"] if choice % 3 == 0 else []) or acts
            if not pool:
                break
            a = pool[(choice // 8) % len(pool)]
            seq.append(a)
            apply(d, a, flags)
    finally:
        d.close()
    run_sequence(acc, seq, "walk")


def hyp_shard(acc, n, seed, maxlen):
    run_given(st.lists(step, min_size=8, max_size=maxlen), lambda steps: run_walk(acc, steps), n, seed)


FIXED = [
    # a second loss while the first ResendRequest is being served
    [("send", "c"), ("send", "c"), ("send", "s"), ("deliver", "c"), ("break", "eof"), ("reconnect",), ("deliver", "c"), ("deliver", "s"), ("deliver", "c"),
     ("send", "c"), ("break", "eof"), ("reconnect",), ("send", "s")],
    [("send", "c"), ("break", "oserror"), ("reconnect",), ("deliver", "c"), ("send", "s"), ("break", "reset"), ("reconnect",)],
    [("send", "s"), ("send", "c"), ("break", "drain"), ("send", "c"), ("send", "s")],
    # the receiving application's handler fails on the second message; the third is lost with the link
    [("send", "c"), ("send", "c"), ("send", "c"), ("arm", "s"), ("deliver", "c"), ("deliver", "c"), ("deliver", "c"), ("break", "eof"), ("reconnect",), ("send", "c")],
    [("send", "s"), ("arm", "c"), ("deliver", "s"), ("send", "s"), ("break", "eof"), ("reconnect",), ("arm", "c"), ("send", "s")],
    [("arm", "s"), ("send", "c"), ("send", "c"), ("deliver_all", "c"), ("send", "c"), ("deliver", "c")],
    [("send", "c"), ("testreq", "s"), ("send", "c"), ("break", "eof"), ("reconnect",), ("testreq", "c"), ("send", "s")],
    # messages lost by a break; the next connection is ended gracefully while the gap is still open
    [("send", "s"), ("deliver", "s"), ("send", "s"), ("send", "s"), ("break", "eof"), ("reconnect",), ("deliver", "c"), ("deliver", "s"), ("logout", "s"), ("deliver_all", "s"),
     ("reconnect",), ("send", "s")],
    [("send", "c"), ("send", "c"), ("break", "eof"), ("reconnect",), ("deliver", "c"), ("logout", "c"), ("deliver", "c"), ("reconnect",), ("send", "c"), ("send", "s")],
    [("send", "c"), ("send", "s"), ("logout", "c"), ("reconnect",), ("send", "c"), ("logout", "s"), ("reconnect",)],
    # an application that ends the connection from inside on_message; the same session reconnects
    [("send", "c"), ("send", "c"), ("armd", "s"), ("deliver", "c"), ("reconnect",), ("send", "c"), ("send", "s")],
    [("send", "s"), ("armd", "c"), ("deliver", "s"), ("send", "s"), ("reconnect",), ("armd", "c"), ("send", "s")],
    # a side that has received far more than it has sent (inbound 10000 while outbound is 3): its few outbound messages must
    # still be retransmitted after a loss, however much inbound history has piled up in the meantime
    [("counters", 3, 9995)] + [("send", "s")] * 4 + [("deliver", "s")] * 4 + [("send", "c"), ("send", "c")] + [("send", "s")] * 4 + [("deliver", "s")] * 4
    + [("break", "eof"), ("reconnect",), ("send", "s"), ("send", "c")],
    [("counters", 9995, 3)] + [("send", "c")] * 6 + [("deliver", "c")] * 6 + [("send", "s"), ("break", "eof"), ("reconnect",), ("send", "c")],
    # counters crossing 9 -> 10 and 99 -> 100 during loss and recovery
    [("counters", 8, 98), ("send", "c"), ("send", "c"), ("send", "c"), ("send", "s"), ("send", "s"), ("deliver", "c"), ("break", "eof"), ("reconnect",), ("send", "c"), ("send", "s"),
     ("deliver", "c"), ("deliver", "s"), ("break", "eof"), ("reconnect",)],
    # the receiver answers from inside on_message and notices the break through the failing write of that answer
    [("responder", "s"), ("send", "c"), ("deliver", "c"), ("send", "c"), ("send", "c"), ("deliver_brk", "c"), ("reconnect",), ("send", "c")],
    [("responder", "c"), ("send", "s"), ("deliver_brk", "s"), ("reconnect",), ("send", "s"), ("deliver", "s"), ("send", "c")],
    # an application that answers from inside on_message, across a loss and the replay that follows
    [("responder", "s"), ("send", "c"), ("deliver", "c"), ("send", "c"), ("send", "c"), ("break", "eof"), ("reconnect",), ("send", "c")],
    [("responder", "c"), ("responder", "s"), ("send", "s"), ("send", "c"), ("deliver_all", "s"), ("break", "eof"), ("reconnect",), ("send", "s")],
]


def fixed(acc):
    for seq in FIXED:
        # resolve against a live pair: deliveries with nothing in flight are dropped (a raising handler changes what is in flight)
        d = Duo()
        eff = []
        try:
            # a fresh pair has the client's Logon in flight: complete the Logon exchange first
            if seq and seq[0][0] == "counters":
                d.close()
                d = Duo(start=tuple(seq[0][1:]))
                eff.append(seq[0])
                seq = seq[1:]
            for a in [("deliver", "c"), ("deliver", "s")] + list(seq):
                if a[0] in ("deliver", "deliver_all", "deliver_brk") and not d.can_deliver(a[1]):
                    continue
                if a[0] == "deliver_all" and len(d.fifo(a[1])) < 2:
                    a = ("deliver", a[1])
                if a[0] == "reconnect" and not d.can_reconnect():
                    continue
                if a[0] == "logout" and not (d.link_alive() and d.connected(a[1])):
                    continue
                eff.append(a)
                apply(d, a, set())
        finally:
            d.close()
        run_sequence(acc, eff, "fixed")


def EXHAUSTIVE(tier):
    return False


def plan(tier, seed):
    parts = 6 if tier == "quick" else 14
    jobs = [("fixed", {})] + [("dfs", {"tier": tier, "first": i, "parts": parts}) for i in range(parts)]
    n, k = (60, 6) if tier == "quick" else (3000, 12)
    jobs += [("hyp_shard", {"n": n, "seed": derive_seed(seed, PROPERTY, i), "maxlen": WALK[tier]}) for i in range(k)]
    return jobs


def replay(acc, case):
    run_sequence(acc, [tuple(a) for a in case["seq"]], "replay")
