"""C03 - stream reassembly is independent of how the byte stream is chunked."""
import itertools

from hypothesis import strategies as st

from asyncfix.connection import ConnectionState
from asyncfix.message import MessageDirection
from vlib.hyp import run_given
from vlib.reffix import SOH, ref_msg
from vlib.runner import derive_seed
from vlib.simnet import acceptor_world

PROPERTY = "C03"
LEVEL = "exploration"
MARKER = b"8=FIX."


def RULE(tier):
    return (
        "Streams of valid frames fabricated by the reference encoder (application messages 1 B..6 KB, "
        "Heartbeat, TestRequest, in sequence after a Logon; values with '=', '|', '10=000', blanks at either end and quoted frame starts '8=FIX.4.2'; one stream with zero-padded fixed-width BodyLength; 70 KB and 140 KB frames in 4096-byte and odd-sized reads; bursts ending exactly on a 4096-byte boundary; bursts in which a frame starts at every offset around the read boundary) fed to the real socket_read_task of a real "
        "acceptor endpoint under: EVERY 1-cut partition, "
        + ("EVERY 2-cut partition" if tier == "thorough" else "every 2-cut partition with both cuts within 8 bytes of a frame start / BodyLength / CheckSum field")
        + " of the small streams, the all-1-byte partition, Hypothesis-drawn multi-cut partitions of generated "
        "streams (frames > 4096 B included, so read(4096) splits too), and marker-free garbage (random bytes, SOH, "
        "'=', proper prefixes of the marker) between frames; and streams that START with the Logon (Logon, application message, "
        "ResendRequest, TestRequest, application message) on endpoints of both roles that are connected but not logged on: one read, "
        "every 1-cut, frame-boundary reads, 1-byte reads; the same on the SECOND connection of an object whose first connection died "
        "with an incomplete frame pending. Expectation by construction: dispatcher, on_message "
        "and inbound journal see exactly the sent frames, once, in order, byte-identical; receive buffer empty at "
        "the end. Non-trivial = a cut strictly inside a frame, or garbage; distinct by (stream, cuts)."
    )


ASSUMPTIONS = [
    "garbage between frames never contains the frame-start marker (such garbage is FREE)",
    "one simulated read returns one fed chunk (or its first 4096 bytes)",
]


def small_streams():
    a = [
        ref_msg("D", "CLI", "SRV", 2, [(11, "ord-1"), (55, "MSFT"), (54, 1), (38, 100)]),
        ref_msg("0", "CLI", "SRV", 3),
        ref_msg("D", "CLI", "SRV", 4, [(11, "ord-2"), (58, "text with = and | and 10=000")]),
    ]
    b = [
        ref_msg("1", "CLI", "SRV", 2, [(112, "PING")]),
        ref_msg("D", "CLI", "SRV", 3, [(11, "x")]),
    ]
    c = [ref_msg("D", "CLI", "SRV", 2, [(11, "solo"), (453, 1), (448, "p"), (447, "D"), (452, 1)])]
    # values quoting a frame start (reject / audit texts) and values ending in blanks
    d = [
        ref_msg("D", "CLI", "SRV", 2, [(11, "q-1"), (58, "unexpected 8=FIX.4.2 in header "), (55, "A B ")]),
        ref_msg("D", "CLI", "SRV", 3, [(58, "8=FIX."), (11, "q-2")]),
    ]
    # a counterparty that writes BodyLength zero-padded to a fixed width (a legal int)
    e = [
        ref_msg("D", "CLI", "SRV", 2, [(11, "pad-1"), (55, "MSFT")], pad=6),
        ref_msg("0", "CLI", "SRV", 3, pad=6),
        ref_msg("D", "CLI", "SRV", 4, [(11, "pad-2"), (58, "tail")], pad=4),
    ]
    return {"A3": a, "B2": b, "C1": c, "D2": d, "E3": e}


class Bench:
    """A logged-on acceptor that is reset between partitions (rebuilt after any anomaly)."""

    def __init__(self):
        self.w = None

    def fresh(self):
        if self.w is not None:
            self.w.close()
        self.w, self.s, self.link = acceptor_world()
        self.base_out = len(self.link.writers["s"].written)
        self.s.dispatched.clear()
        self.s.app_msgs.clear()

    def reset(self):
        s = self.s
        if (s.connection_state != ConnectionState.ACTIVE or s._msg_buffer or s._session.next_num_in != 2
                or s._aio_task_socket_read.done()):
            self.fresh()
            return
        s.dispatched.clear()
        s.app_msgs.clear()
        s.events.clear()

    def close(self):
        if self.w is not None:
            self.w.close()
            self.w = None

    def run(self, chunks, frames):
        """Feeds chunks (one read each). Returns dict of observations."""
        if self.w is None:
            self.fresh()
        s, w = self.s, self.w
        r = self.link.readers["s"]
        for c in chunks:
            r.feed(c)
            w.idle()
        obs = {
            "dispatched": list(s.dispatched),
            "app": [m for m in s.app_msgs],
            "buffer": bytes(s._msg_buffer),
            "state": s.connection_state,
            "journal": list(s._journaler.recover_messages(s._session, MessageDirection.INBOUND, 2, 10**9)),
            "task_alive": not s._aio_task_socket_read.done(),
        }
        # undo: bring the session back to "expecting 2"
        try:
            s._journaler.set_seq_num(s._session, next_num_in=2)
        except Exception:
            self.fresh()
        if obs["dispatched"] != frames or obs["buffer"] or s._msg_buffer or obs["state"] != ConnectionState.ACTIVE or s._test_req_id:
            self.fresh()
        else:
            self.reset()
        return obs


def cut_class(frames, garbage, cuts):
    """Classes of the cut offsets relative to the frame (or garbage) they fall into."""
    spans = []  # (start, end, kind, frame)
    pos = 0
    for i, f in enumerate(frames):
        g = garbage.get(i, b"")
        if g:
            spans.append((pos, pos + len(g), "garbage", None))
            pos += len(g)
        spans.append((pos, pos + len(f), "frame", f))
        pos += len(f)
    cl = set()
    for c in cuts:
        for a, b, kind, f in spans:
            if a <= c < b:
                off = c - a
                if kind == "garbage":
                    cl.add("in-garbage" if off else "boundary")
                elif off == 0:
                    cl.add("boundary")
                elif off <= 5:
                    cl.add("in-marker")
                elif off <= f.index(SOH, f.index(SOH) + 1):
                    cl.add("in-bodylength")
                elif off >= len(f) - 7:
                    cl.add("in-checksum")
                else:
                    cl.add("in-body")
                break
    return cl


def judge(acc, bench, name, frames, cuts, garbage=None):
    garbage = garbage or {}
    data = b""
    for i, f in enumerate(frames):
        data += garbage.get(i, b"") + f
    data += garbage.get(len(frames), b"")
    cuts = sorted(set(c for c in cuts if 0 < c < len(data)))
    chunks = [data[a:b] for a, b in zip([0] + cuts, cuts + [len(data)])]
    obs = bench.run(chunks, frames)
    cl = cut_class(frames, garbage, cuts)
    inside = cl - {"boundary"}
    if garbage:
        cl.add("garbage")
    if len(cuts) == len(data) - 1 and len(data) > 2:
        kind = "one-byte-reads"
    elif "in-marker" in cl:
        kind = "cut-in-marker"
    elif garbage:
        kind = "garbage"
    else:
        kind = "+".join(sorted(inside)) or "boundary-cuts"
    case = {"stream": name, "frames": frames, "cuts": cuts, "garbage": {str(k): v for k, v in garbage.items()}}
    exp_app = [f for f in frames if b"\x0135=D\x01" in f]
    if not obs["task_alive"]:
        acc.violation(f"C03:reader-task-died/{kind}", "reader task ended", case)
    if obs["dispatched"] != frames:
        missing = [i for i, f in enumerate(frames) if f not in obs["dispatched"]]
        extra = [d for d in obs["dispatched"] if d not in frames]
        what = "lost-frames" if missing else ("duplicated-or-reordered" if not extra else "foreign-frames")
        acc.violation(f"C03:{what}/{kind}",
                      f"stream {name} ({len(frames)} frames, {len(data)} B) cuts={cuts[:12]}{'...' if len(cuts) > 12 else ''}: dispatcher saw "
                      f"{len(obs['dispatched'])} frames, missing indexes {missing}, extra {len(extra)}, buffer left {len(obs['buffer'])} B, state {obs['state']!r}", case)
    else:
        if len(obs["app"]) != len(exp_app):
            acc.violation(f"C03:on_message-mismatch/{kind}", f"on_message saw {len(obs['app'])} messages, expected {len(exp_app)}", case)
        if obs["journal"] != frames:
            acc.violation(f"C03:journal-mismatch/{kind}", f"inbound journal holds {len(obs['journal'])} frames, expected {len(frames)} byte-identical", case)
        keep_ok = {MARKER[:k] for k in range(1, len(MARKER)) if data.endswith(MARKER[:k])}
        if obs["buffer"] and obs["buffer"] not in keep_ok:
            # (a trailing proper prefix of the marker may legitimately wait for its continuation)
            acc.violation(f"C03:buffer-not-empty/{kind}", f"{len(obs['buffer'])} bytes left in the receive buffer", case)
    nt = bool(inside) or bool(garbage)
    acc.case((name, tuple(cuts), tuple(sorted(garbage.items()))) if nt else None, cls=[f"kind={kind}"],
             sample={"stream": name, "bytes": len(data), "cuts": cuts[:20], "garbage": bool(garbage)} if nt and len(acc.samples) < 3 and len(cuts) > 1 else None)


def interesting_offsets(frames, radius=8):
    offs = set()
    pos = 0
    for f in frames:
        i1 = f.index(SOH)
        i2 = f.index(SOH, i1 + 1)
        for centre in (0, i1 + 1, i2, len(f) - 7, len(f)):
            for d in range(-radius, radius + 1):
                offs.add(pos + centre + d)
        pos += len(f)
    return sorted(o for o in offs if 0 < o < pos)


def cuts1(acc, name):
    frames = small_streams()[name]
    n = sum(map(len, frames))
    b = Bench()
    try:
        for c in range(1, n):
            judge(acc, b, name, frames, [c])
        judge(acc, b, name, frames, list(range(1, n)))  # all 1-byte reads
        judge(acc, b, name, frames, [])
    finally:
        b.close()


def scale(acc):
    """Read-size boundaries: frames far larger than one read (70 KB, 140 KB) delivered in read(4096)-sized and odd-sized pieces;
    a burst that ends EXACTLY on a 4096-byte read boundary with nothing behind it; bursts of small frames longer than two reads
    in which, over a sweep of alignments, a frame starts at every offset around the read boundary (4090..4100)."""
    b = Bench()
    try:
        big = [ref_msg("D", "CLI", "SRV", 2, [(11, "big-1"), (58, "x" * 70000)]), ref_msg("0", "CLI", "SRV", 3),
               ref_msg("D", "CLI", "SRV", 4, [(11, "big-2"), (58, "8=FI" * 35000)]), ref_msg("D", "CLI", "SRV", 5, [(11, "tail")])]
        n = sum(map(len, big))
        for step in (4096, 1000, 65536, 65537, 9973):
            judge(acc, b, f"big/{step}", big, list(range(step, n, step)))
        judge(acc, b, "big/one-read", big, [])
        # exactly k * 4096 bytes, then silence
        for k in (1, 2):
            frames, total, seq = [], 0, 2
            while total < k * 4096 - 400:
                f = ref_msg("D", "CLI", "SRV", seq, [(11, f"o{seq}"), (58, "pad" * (seq % 5))])
                frames.append(f)
                total += len(f)
                seq += 1
            base = len(ref_msg("D", "CLI", "SRV", seq, [(11, "last"), (58, "")]))
            fill = k * 4096 - total - base
            last = ref_msg("D", "CLI", "SRV", seq, [(11, "last"), (58, "z" * fill)])
            if len(last) != base + fill:  # BodyLength gained a digit
                last = ref_msg("D", "CLI", "SRV", seq, [(11, "last"), (58, "z" * (fill - (len(last) - base - fill)))])
            frames.append(last)
            assert sum(map(len, frames)) == k * 4096, sum(map(len, frames))
            judge(acc, b, f"exact-{k}x4096/one-read", frames, [])
            judge(acc, b, f"exact-{k}x4096/4096-reads", frames, list(range(4096, k * 4096, 4096)))
        # alignment sweep
        for pad in range(0, 130, 1):
            frames = [ref_msg("D", "CLI", "SRV", 2, [(11, "first"), (58, "p" * pad)])]
            seq = 3
            while sum(map(len, frames)) < 9000:
                frames.append(ref_msg("D", "CLI", "SRV", seq, [(11, f"o{seq}"), (55, "SYM")]))
                seq += 1
            tot = sum(map(len, frames))
            judge(acc, b, f"align/{pad}", frames, list(range(4096, tot, 4096)))
        acc.klass("scale")
    finally:
        b.close()


def cuts2(acc, name, part, parts, full):
    frames = small_streams()[name]
    n = sum(map(len, frames))
    offs = list(range(1, n)) if full else interesting_offsets(frames)
    b = Bench()
    try:
        for k, (c1, c2) in enumerate(itertools.combinations(offs, 2)):
            if k % parts == part:
                judge(acc, b, name, frames, [c1, c2])
    finally:
        b.close()


def logon_stream(acc, role):
    """The Logon itself is part of the stream: [Logon, frames behind it], every 1-cut, no cut (one read), 1-byte reads,
    on an endpoint that is connected but not yet logged on (acceptor; initiator that has sent its Logon)."""
    from vlib.sess import Bench as SBench

    peer, me = ("CLI", "SRV") if role == "acceptor" else ("SRV", "CLI")
    frames = [
        ref_msg("A", peer, me, 1, [(98, 0), (108, 30)]),
        ref_msg("D", peer, me, 2, [(11, "right-behind-logon"), (55, "X")]),
        ref_msg("2", peer, me, 3, [(7, 1), (16, 0)]),
        ref_msg("1", peer, me, 4, [(112, "PING")]),
        ref_msg("D", peer, me, 5, [(11, "last")]),
    ]
    data = b"".join(frames)
    n = len(data)
    bounds = []
    pos = 0
    for f in frames:
        pos += len(f)
        bounds.append(pos)
    parts = [[]] + [[c] for c in range(1, n)] + [bounds[:-1]] + [list(range(1, n))] + [[bounds[0]], [bounds[1]], [bounds[0], bounds[2]]]
    for cuts in parts:
        b = SBench(role, "connected")
        try:
            r = b.link.readers[b.side]
            chunks = [data[a:z] for a, z in zip([0] + cuts, cuts + [n])]
            for c in chunks:
                r.feed(c)
                b.w.idle()
            got = list(b.ep.dispatched)
            case = {"logon_stream": role, "cuts": cuts if len(cuts) < 30 else "all-1-byte"}
            kind = "one-read" if not cuts else ("one-byte-reads" if len(cuts) == n - 1 else ("frame-boundaries" if all(c in bounds for c in cuts) else "cut-inside"))
            if got != frames:
                missing = [i for i, f in enumerate(frames) if f not in got]
                acc.violation(f"C03:logon-stream/lost-frames/{kind}", f"{role}: stream [Logon, D, ResendRequest, TestRequest, D] cuts={case['cuts']}: dispatcher saw {len(got)} of 5 frames, "
                              f"missing indexes {missing}, state {b.ep.connection_state.name}, buffer {len(b.ep._msg_buffer)} B", case)
            elif [m.get(11) for m in b.ep.app_msgs] != ["right-behind-logon", "last"]:
                acc.violation(f"C03:logon-stream/on_message/{kind}", f"{role}: on_message saw {[m.get(11) for m in b.ep.app_msgs]}", case)
            acc.case(("logon-stream", role, tuple(cuts)), cls=[f"kind=logon-stream/{kind}"],
                     sample={"logon_stream": role, "frames": 5, "bytes": n, "cuts": cuts} if len(acc.samples) < 1 and cuts == [] else None)
        finally:
            b.close()


def second_connection_stream(acc, role):
    """A connection dies with an incomplete frame pending; on the NEXT connection of the same object the stream
    [Logon, D, TestRequest, D] must come through under every 1-cut, one read and 1-byte reads. Nothing of the first
    connection may leak into the second (the incomplete frame itself is lost with its connection: FREE)."""
    from vlib.sess import Bench as SBench

    peer, me = ("CLI", "SRV") if role == "acceptor" else ("SRV", "CLI")
    big = ref_msg("D", peer, me, 2, [(11, "never-completed"), (58, "z" * 200)])
    for pending in (big[:160], big[:3], big[:-1], b"8=FIX.4.4\x019=5000\x0135=D\x01" + b"q" * 300):
        probe = SBench(role, "active")
        n_logon_in = 2  # next inbound number on the second connection (Logon was 1, the pending frame never counted)
        probe.close()
        frames = [
            ref_msg("A", peer, me, n_logon_in, [(98, 0), (108, 30)]),
            ref_msg("D", peer, me, n_logon_in + 1, [(11, "second-1")]),
            ref_msg("1", peer, me, n_logon_in + 2, [(112, "PING")]),
            ref_msg("D", peer, me, n_logon_in + 3, [(11, "second-2")]),
        ]
        data = b"".join(frames)
        n = len(data)
        for cuts in [[]] + [[c] for c in range(1, n, 3)] + [list(range(1, n))] + [[len(frames[0])]]:
            b = SBench(role, "active")
            try:
                b.link.readers[b.side].feed(pending)
                b.w.idle()
                b.link.break_("eof")
                b.w.idle()
                b.w.advance(1.01)
                if role == "acceptor":
                    b.link = b.w.attach_server_only()
                else:
                    b.w.connect_client()
                    b.link = b.w.link
                n0 = len(b.ep.dispatched)
                m0 = len(b.ep.app_msgs)
                r = b.link.readers[b.side]
                for c in [data[a:z] for a, z in zip([0] + cuts, cuts + [n])]:
                    r.feed(c)
                    b.w.idle()
                got = b.ep.dispatched[n0:]
                case = {"second_connection": role, "pending": pending, "cuts": cuts if len(cuts) < 30 else "all-1-byte"}
                kind = "one-read" if not cuts else ("one-byte-reads" if len(cuts) == n - 1 else "cut")
                if got != frames:
                    missing = [i for i, f in enumerate(frames) if f not in got]
                    acc.violation(f"C03:second-connection/lost-frames/{kind}", f"{role}: previous connection died with {len(pending)} B of an incomplete frame pending; on the next connection "
                                  f"the stream [Logon, D, TestRequest, D] cuts={case['cuts']} reached the dispatcher as {len(got)} of 4 frames (missing {missing}), "
                                  f"state {b.ep.connection_state.name}", case)
                elif [m.get(11) for m in b.ep.app_msgs[m0:]] != ["second-1", "second-2"]:
                    acc.violation(f"C03:second-connection/on_message/{kind}", f"{role}: on_message saw {[m.get(11) for m in b.ep.app_msgs[m0:]]}", case)
                acc.case(("second-connection", role, pending, tuple(cuts)), cls=[f"kind=second-connection/{kind}"])
            finally:
                b.close()


GARBAGE = [b"\x01", b"=", b"8", b"8=", b"8=F", b"8=FI", b"8=FIX", b"\x0110=000\x01", b"\x00\xff\x01=", b"junk junk", b"9=12\x0135=A\x01",
           b"10=123\x01", b"\n", b"FIX.4.4", b"8=FIX,4.4\x019=5\x01",
           # long garbage (longer than the frames behind it), and the tail of an aborted frame
           b"x" * 90, bytes(range(256)) * 2, b"noise \x01" * 40,
           ref_msg("D", "CLI", "SRV", 7, [(11, "aborted"), (58, "tail of a frame whose head was lost")])[1:],
           ref_msg("0", "CLI", "SRV", 9)[3:]]
assert all(MARKER not in g for g in GARBAGE)


def garbage_sweep(acc):
    b = Bench()
    try:
        for name, frames in small_streams().items():
            n = sum(map(len, frames))
            for g in GARBAGE:
                for where in range(len(frames) + 1):
                    gar = {where: g}
                    total = n + len(g)
                    judge(acc, b, name, frames, [], gar)
                    # garbage arrives in its own read, and glued to its neighbours
                    start = sum(len(f) for f in frames[:where])
                    judge(acc, b, name, frames, [start, start + len(g)], gar)
                    judge(acc, b, name, frames, [start], gar)
                    judge(acc, b, name, frames, [start + len(g)], gar)
                    judge(acc, b, name, frames, list(range(1, total)), gar)
    finally:
        b.close()


@st.composite
def gen_stream(draw):
    k = draw(st.integers(1, 6))
    frames = []
    for i in range(k):
        kind = draw(st.sampled_from(["D", "D", "D", "0", "1"]))
        seq = 2 + i
        if kind == "D":
            size = draw(st.one_of(st.integers(1, 40), st.integers(1, 300), st.sampled_from([4000, 4096, 4200, 6000])))
            val = draw(st.sampled_from(["x", "ab=", "8=FI", "|", "8=FIX.4.4 9=5 ", " "])) * size
            frames.append(ref_msg("D", "CLI", "SRV", seq, [(11, f"id{i}"), (58, val[:size])]))
        elif kind == "0":
            frames.append(ref_msg("0", "CLI", "SRV", seq))
        else:
            frames.append(ref_msg("1", "CLI", "SRV", seq, [(112, f"T{i}")]))
    n = sum(map(len, frames))
    ncuts = draw(st.one_of(st.integers(0, 6), st.integers(0, 40)))
    near = interesting_offsets(frames, 6)
    cuts = draw(st.lists(st.one_of(st.integers(1, max(1, n - 1)), st.sampled_from(near) if near else st.just(1)), max_size=ncuts))
    garbage = {}
    if draw(st.integers(0, 3)) == 0:
        for _ in range(draw(st.integers(1, 2))):
            g = draw(st.one_of(st.sampled_from(GARBAGE), st.binary(min_size=1, max_size=30), st.binary(min_size=31, max_size=400)))
            g = g.replace(MARKER, b"8=FIX,")
            garbage[draw(st.integers(0, k))] = g
    return frames, cuts, garbage


def hyp_shard(acc, n, seed):
    b = Bench()
    cnt = [0]

    def one(x):
        frames, cuts, garbage = x
        cnt[0] += 1
        total = sum(map(len, frames)) + sum(map(len, garbage.values()))
        # garbage may join the following frame's start into an earlier marker? impossible: frames start with '8'
        judge(acc, b, f"gen{cnt[0]}", frames, cuts, garbage)

    try:
        run_given(gen_stream(), one, n, seed)
    finally:
        b.close()


def EXHAUSTIVE(tier):
    return False


def plan(tier, seed):
    jobs = [("cuts1", {"name": n}) for n in small_streams()]
    jobs.append(("garbage_sweep", {}))
    jobs.append(("scale", {}))
    jobs += [("logon_stream", {"role": r}) for r in ("acceptor", "initiator")]
    jobs += [("second_connection_stream", {"role": r}) for r in ("acceptor", "initiator")]
    if tier == "quick":
        jobs += [("cuts2", {"name": "A3", "part": i, "parts": 4, "full": False}) for i in range(4)]
        jobs += [("cuts2", {"name": "B2", "part": 0, "parts": 1, "full": False})]
        jobs += [("cuts2", {"name": "D2", "part": 0, "parts": 1, "full": False})]
        jobs += [("cuts2", {"name": "E3", "part": 0, "parts": 1, "full": False})]
        jobs += [("hyp_shard", {"n": 400, "seed": derive_seed(seed, PROPERTY, i)}) for i in range(4)]
    else:
        jobs += [("cuts2", {"name": "A3", "part": i, "parts": 10, "full": True}) for i in range(10)]
        jobs += [("cuts2", {"name": "B2", "part": i, "parts": 4, "full": True}) for i in range(4)]
        jobs += [("cuts2", {"name": "C1", "part": 0, "parts": 1, "full": True})]
        jobs += [("cuts2", {"name": "D2", "part": i, "parts": 4, "full": True}) for i in range(4)]
        jobs += [("cuts2", {"name": "E3", "part": i, "parts": 4, "full": True}) for i in range(4)]
        jobs += [("hyp_shard", {"n": 20000, "seed": derive_seed(seed, PROPERTY, i)}) for i in range(12)]
    return jobs


def replay(acc, case):
    if "logon_stream" in case:
        logon_stream(acc, case["logon_stream"])
        return
    if "second_connection" in case:
        second_connection_stream(acc, case["second_connection"])
        return
    b = Bench()
    try:
        judge(acc, b, case["stream"], case["frames"], case["cuts"], {int(k): v for k, v in case.get("garbage", {}).items()})
    finally:
        b.close()
