"""C20 - the bundled test helper fabricates valid, consistent counterparty traffic.

Part 1 (fabrication): Hypothesis drives an order through histories using FIXTester itself as the exchange and
probes the fabrication functions with drawn arguments at every reached state.
Part 2 (fidelity): clean session scripts replayed against FIXTester's simulated acceptor and against a real
acceptor endpoint over the simulated link (see fidelity_* below).
"""
import math
import os
import warnings

from hypothesis import strategies as st

from asyncfix import FIXMessage, FMsg, FTag
from asyncfix.errors import FIXError, FIXMessageError
from asyncfix.fix_tester import FIXTester
from asyncfix.protocol.common import FExecType, FOrdStatus
from asyncfix.protocol.order_single import FIXNewOrderSingle
from asyncfix.protocol.schema import FIXSchema
from vlib.hyp import run_given
from vlib.runner import SRC, derive_seed

PROPERTY = "C20"
LEVEL = "exploration"
RULE = (
    "(1) Fabrication: Hypothesis histories (<=25 steps quick, <=60 thorough) over one order (quantity / price from 0.0005 to 2.5 million, up to nine significant digits) with FIXTester as the exchange: "
    "natural progress steps (ack by the helper or by a report from outside carrying an exchange-style OrderID, partial/full fill, order status reports (ExecType=I), pending cancel/replace, canceled, replaced, reject of a request, "
    "client cancel / replace, reset_messages(), reports for further orders registered on the same helper) interleaved with probes calling fix_exec_report_msg with EVERY drawn ExecType x OrdStatus and "
    "drawn cum/leaves/last quantities, price, order qty, ClOrdID in {current, original}, OrigClOrdID, some processed and some "
    "not; fix_cxlrep_reject_msg for every status; the five session factories over their argument ranges. Calls refused by the "
    "helper's own assertions are counted and skipped. Oracle: each fabricated message validates against a FIXSchema of "
    "tests/FIX44.xml built by the check, CumQty+LeavesQty<=OrderQty, LeavesQty=0 for finished statuses, ExecID never repeats (across reset_messages() and across orders), "
    "OrderID is the same for all reports of the order, processing by the order object raises nothing. "
    "(2) Fidelity: clean session scripts (Hypothesis lists <= 14 quick / 40 thorough over: initiator Logon, application message "
    "either way (also one carrying a repeating group that only the initiator's own protocol definition lists), TestRequest either way, Heartbeat either way, optional final Logout from either side; starting counters symmetric "
    "and asymmetric as after a resumed session) replayed against FIXTester(connection=initiator) through its reply / "
    "process_msg_acceptor API and against a real AsyncFIXDummyServer endpoint over the simulated link: the initiator's sent frames "
    "and the frames it receives (field lists without BodyLength, CheckSum, SendingTime), its connection_state and both ends' "
    "counters after every step and its callback log must be identical. Non-trivial = report for an order with a pending request or a partial "
    "fill / script with traffic in both directions after Logon; distinct by (state signature, arguments)."
)
ASSUMPTIONS = [
    "argument combinations refused by the helper's own assertions are outside the domain (counted as refused)",
    "session factories are called with arguments in their documented meaning (positive sequence numbers, EndSeqNo >= 0, printable TestReqID)",
    "tests/FIX44.xml is the FIX 4.4 dictionary",
    "order quantity and price themselves are >= 1e-4: how Price / OrderQty are rendered is the order object's documented formatting hook (set_price_qty), not the helper's",
]
_SCHEMA = None
FIN = {"2", "4", "8", "C"}


def schema():
    global _SCHEMA
    if _SCHEMA is None:
        with warnings.catch_warnings():
            warnings.simplefilter("ignore")
            _SCHEMA = FIXSchema(os.path.join(SRC, "tests/FIX44.xml"))
    return _SCHEMA


NAN = float("nan")
ETS = [m for m in FExecType]
OSS = [m for m in FOrdStatus]
qty_choice = st.sampled_from(["nan", "same", "inc-small", "inc-half", "to-full", "over", "zero", "neg"])
leaves_choice = st.sampled_from(["nan", "rest", "zero", "over", "half", "neg", "rest", "just-over"])
last_choice = st.sampled_from(["nan", "delta", "other", "zero"])
probe = st.tuples(
    st.just("probe"), st.sampled_from(ETS), st.sampled_from(OSS), qty_choice, leaves_choice, last_choice,
    st.sampled_from([NAN, NAN, 150.5, 200.0]), st.sampled_from([NAN, NAN, 5.0, 20.0, 0.0]), st.sampled_from(["cur", "orig"]),
    st.sampled_from([None, None, "orig", "x"]), st.sampled_from([0.0, 101.25]), st.booleans(),
)
natural = st.tuples(st.just("natural"), st.sampled_from(["pending_new", "ack", "reject_new", "partial", "fill", "pending_cancel", "canceled", "pending_replace", "replaced",
                                                        "expired", "suspended", "restated", "done_for_day", "trade_while_pending", "status", "status"]), st.sampled_from([0.25, 0.5, 0.1]), st.booleans())
client = st.tuples(st.just("client"), st.sampled_from(["cancel", "replace-px", "replace-qty", "replace-both"]), st.sampled_from([150.0, 250.5]), st.sampled_from([5.0, 20.0, 12.5]))
reject = st.tuples(st.just("reject"), st.sampled_from(OSS), st.booleans())
housekeeping = st.sampled_from([("reset",), ("reset",), ("other-order",)])
step = st.one_of(natural, natural, probe, probe, client, reject, housekeeping)


class Run:
    def __init__(self, acc, steps):
        self.acc = acc
        self.steps = steps
        self.ft = FIXTester(schema=None)
        q, px = (steps[0][1], steps[0][2]) if steps and steps[0][0] == "order" else (10.0, 200.0)
        self.o = FIXNewOrderSingle("clordTest", "US.F.TICKER", side="1", price=px, qty=q)
        self.exec_ids = set()
        self.order_ids = set()
        self.last_req = None
        self.flags = set()
        self.refused = 0
        self.fabricated = 0

    def bad(self, sig, detail, extra=None):
        self.acc.violation("C20:" + sig, detail, {"steps": [[getattr(x, "value", x) for x in s] for s in self.steps], "at": extra})

    def state_sig(self):
        o = self.o
        return (str(o.status), o.cum_qty > 0, o.orig_clord_id is not None, o.order_id is not None)

    def judge_er(self, m, args, i):
        self.fabricated += 1
        o = self.o
        if o.orig_clord_id or (0 < o.cum_qty < o.qty):
            self.flags.add("pending-or-partial")
        try:
            with warnings.catch_warnings():
                warnings.simplefilter("ignore")
                ok = schema().validate(m)
            if ok is not True:
                self.bad("er/schema-returns", f"validate returned {ok!r}", i)
        except FIXMessageError as e:
            k = "ordstatus-not-fix" if str(args[2]) == "Z" else "other"
            self.bad(f"er/invalid-for-dictionary/{k}", f"fabricated ExecutionReport does not validate against FIX44.xml: {str(e)[:300]}; args={args!r}; msg={m!r}", i)
        except BaseException as e:  # noqa
            self.bad(f"er/schema-raises/{type(e).__name__}", f"{type(e).__name__}: {e}; msg={m!r}", i)
        try:
            cum, lv, oq = float(m[FTag.CumQty]), float(m[FTag.LeavesQty]), float(m[FTag.OrderQty])
            if cum + lv > oq * (1 + 1e-12) + 1e-15:
                self.bad("er/cum+leaves>orderqty", f"CumQty {cum} + LeavesQty {lv} > OrderQty {oq}; args={args!r}", i)
            if m[FTag.OrdStatus] in FIN and lv != 0:
                self.bad("er/finished-with-leaves", f"OrdStatus {m[FTag.OrdStatus]} with LeavesQty {lv}; args={args!r}", i)
        except BaseException as e:  # noqa
            self.bad(f"er/quantities-unreadable/{type(e).__name__}", f"{type(e).__name__}: {e}; msg={m!r}", i)
        eid = m.get(FTag.ExecID, None)
        if eid in self.exec_ids:
            self.bad("er/execid-repeated", f"ExecID {eid!r} used before", i)
        self.exec_ids.add(eid)
        oid = m.get(FTag.OrderID, None)
        self.order_ids.add(oid)
        if len(self.order_ids) > 1:
            self.bad("er/orderid-unstable" + ("/before-first-processed" if o.order_id is None else ""),
                     f"reports of one order carry different OrderIDs {sorted(self.order_ids)} (order.order_id={o.order_id!r})", i)
            self.order_ids = {oid}

    def process(self, m, i):
        try:
            self.o.process_execution_report(m)
        except BaseException as e:  # noqa
            self.bad(f"er/process-raises/{type(e).__name__}", f"process_execution_report raised {type(e).__name__}: {e}; msg={m!r}", i)

    def fabricate(self, i, args, **kw):
        try:
            return self.ft.fix_exec_report_msg(self.o, **kw)
        except AssertionError:
            self.refused += 1
            self.acc.klass("refused-by-helper-assert")
            return None
        except BaseException as e:  # noqa
            self.bad(f"er/fabrication-raises/{type(e).__name__}", f"fix_exec_report_msg raised {type(e).__name__}: {e}; args={args!r}", i)
            return None

    def run(self):
        o = self.o
        # two ways users start: register the created order and let reports move it (as the repo's tests do),
        # or build the NewOrderSingle first (status PENDING_NEW) and register it under its first ClOrdID
        if len(self.steps) % 2:
            try:
                o.new_req()
            except Exception as e:
                raise RuntimeError(f"new_req failed: {e!r}")
            self.acc.klass("start=new_req")
        else:
            self.acc.klass("start=created")
        self.ft.order_register_single(o)
        for i, s in enumerate(self.steps):
            k = s[0]
            if k == "order":
                continue
            if k == "extack":
                # the order was acknowledged by a report NOT fabricated by this helper (another tester instance before a
                # reconnect, a hand-written fixture) carrying an exchange-style OrderID: the helper's reports must keep it
                if str(o.status) != str(FOrdStatus.PENDING_NEW) or o.order_id is not None:
                    continue
                m = FIXMessage(FMsg.EXECUTIONREPORT, {11: o.clord_id, 37: "EX-20260922-77", 17: "ext-1", 150: "0", 39: "0", 55: "US.F.TICKER", 54: "1",
                                                      14: "0", 151: str(o.qty), 6: "0", 38: str(o.qty)})
                self.process(m, i)
                if o.order_id == "EX-20260922-77":
                    self.order_ids = {"EX-20260922-77"}
                    self.flags.add("order-id-from-outside")
                continue
            if k == "probe":
                _, et, os_, cq, lq, lastq, px, oq, which, orig, avg, do_process = s
                cum = {"nan": NAN, "same": o.cum_qty, "inc-small": o.cum_qty + 1.0, "inc-half": o.cum_qty + (o.qty - o.cum_qty) / 2, "to-full": o.qty,
                       "over": o.qty + 1.0, "zero": 0.0, "neg": -1.0}[cq]
                base_cum = o.cum_qty if math.isnan(cum) else cum
                oqty = o.qty if math.isnan(oq) else oq
                leaves = {"nan": NAN, "rest": max(oqty - base_cum, 0.0), "zero": 0.0, "over": oqty + 1.0, "half": max(oqty - base_cum, 0.0) / 2, "neg": -1.0,
                          "just-over": max(oqty - base_cum, 0.0) + oqty * 5e-10}[lq]  # CumQty + LeavesQty a hair above OrderQty
                last = {"nan": NAN, "delta": base_cum - o.cum_qty, "other": 3.0, "zero": 0.0}[lastq]
                clord = o.clord_id if which == "cur" or not o.orig_clord_id else o.orig_clord_id
                origv = None if orig is None else (o.orig_clord_id if orig == "orig" else "x-orig")
                m = self.fabricate(i, s, clord_id=clord, exec_type=et, ord_status=os_, cum_qty=cum, leaves_qty=leaves, last_qty=last, price=px, order_qty=oq,
                                   orig_clord_id=origv, avg_price=avg)
                if m is not None:
                    self.judge_er(m, s, i)
                    if do_process:
                        self.process(m, i)
            elif k == "natural":
                _, what, frac, do_process = s
                kw = self.natural_args(what, frac)
                if kw is None:
                    continue
                m = self.fabricate(i, s, **kw)
                if m is not None:
                    self.judge_er(m, (what, kw.get("exec_type"), kw.get("ord_status")), i)
                    if do_process or what in ("ack", "pending_new"):
                        self.process(m, i)
            elif k == "reset":
                # the documented way to clear the captured message queues in the middle of a scenario
                try:
                    self.ft.reset_messages()
                    self.flags.add("after-reset")
                except BaseException as e:  # noqa
                    self.bad(f"reset/raises/{type(e).__name__}", f"reset_messages raised {type(e).__name__}: {e}", i)
            elif k == "other-order":
                # a second, different order on the same helper: its reports take ExecIDs from the same sequence and another OrderID
                self.n_other = getattr(self, "n_other", 0) + 1
                o2 = FIXNewOrderSingle(f"clordOther{self.n_other}", "US.F.TICKER", side="2", price=100.0, qty=5.0)
                try:
                    self.ft.order_register_single(o2)
                    m = self.ft.fix_exec_report_msg(o2, o2.clord_id, FExecType.NEW, FOrdStatus.NEW, cum_qty=0.0, leaves_qty=5.0)
                except BaseException as e:  # noqa
                    self.bad(f"other-order/raises/{type(e).__name__}", f"{type(e).__name__}: {e}", i)
                    continue
                self.fabricated += 1
                self.flags.add("second-order")
                eid, oid = m.get(FTag.ExecID, None), m.get(FTag.OrderID, None)
                if eid in self.exec_ids:
                    self.bad("er/execid-repeated/other-order", f"ExecID {eid!r} of another order's report used before", i)
                self.exec_ids.add(eid)
                # the statement asks for a stable OrderID per order, not for distinct ones across orders: only counted
                if oid in self.order_ids:
                    self.acc.klass("orderid-shared-between-orders")
            elif k == "client":
                _, what, px, q = s
                try:
                    if what == "cancel":
                        if o.can_cancel():
                            self.last_req = self.ft.fix_cxl_request(o)
                    elif o.can_replace():
                        self.last_req = self.ft.fix_rep_request(o, px if what != "replace-qty" else NAN, q if what != "replace-px" else NAN)
                except (AssertionError, FIXError):
                    self.acc.klass("client-request-refused")
                except BaseException as e:  # noqa
                    self.bad(f"request/raises/{type(e).__name__}", f"{what}: {type(e).__name__}: {e}", i)
            elif k == "reject":
                _, status, do_process = s
                if self.last_req is None:
                    continue
                try:
                    m = self.ft.fix_cxlrep_reject_msg(self.last_req, status)
                except AssertionError:
                    self.acc.klass("refused-by-helper-assert")
                    continue
                except BaseException as e:  # noqa
                    self.bad(f"ocr/fabrication-raises/{type(e).__name__}", f"{type(e).__name__}: {e}", i)
                    continue
                self.fabricated += 1
                # "a stable OrderID per order": once execution reports of this order have named its OrderID, a cancel reject
                # fabricated for the same order names the same one (before the first report the reject's OrderID is FREE)
                roid = m.get(FTag.OrderID, None)
                known = {str(x) for x in self.order_ids if x is not None}
                if known and str(roid) not in known:
                    self.bad("ocr/orderid-differs-from-reports", f"cancel reject carries OrderID {roid!r}, the order's execution reports carried {sorted(known)}", i)
                elif known:
                    self.acc.klass("cancel-reject-after-reports")
                try:
                    with warnings.catch_warnings():
                        warnings.simplefilter("ignore")
                        schema().validate(m)
                except FIXMessageError as e:
                    kk = "ordstatus-not-fix" if str(status) == "Z" else "other"
                    self.bad(f"ocr/invalid-for-dictionary/{kk}", f"fabricated OrderCancelReject does not validate: {str(e)[:300]}; msg={m!r}", i)
                except BaseException as e:  # noqa
                    self.bad(f"ocr/schema-raises/{type(e).__name__}", f"{type(e).__name__}: {e}", i)
                if m.get(FTag.ClOrdID, None) != self.last_req[FTag.ClOrdID] or m.get(FTag.OrigClOrdID, None) != self.last_req[FTag.OrigClOrdID]:
                    self.bad("ocr/ids", f"reject does not carry the request's ClOrdID/OrigClOrdID: {m!r} vs {self.last_req!r}", i)
                if do_process and o.orig_clord_id and str(status) not in ("Z", "D"):
                    try:
                        o.process_cancel_rej_report(m)
                        self.last_req = None
                    except BaseException as e:  # noqa
                        self.bad(f"ocr/process-raises/{type(e).__name__}", f"process_cancel_rej_report raised {type(e).__name__}: {e}", i)
        nt = bool(self.flags) and self.fabricated > 0
        self.acc.case((tuple(map(repr, self.steps))) if nt else None, cls=["fabrication"] + sorted(self.flags) + [f"final={self.o.status!s}"],
                      sample={"steps": [repr(s)[:120] for s in self.steps[:8]], "fabricated": self.fabricated, "refused": self.refused, "final_status": str(self.o.status)}
                      if nt and len(self.acc.samples) < 4 and self.fabricated > 4 else None)
        self.acc.extra["fabricated_messages"] = self.acc.extra.get("fabricated_messages", 0) + self.fabricated
        self.acc.extra["refused_by_helper"] = self.acc.extra.get("refused_by_helper", 0) + self.refused

    def natural_args(self, what, frac):
        o = self.o
        cur = o.clord_id
        orig = o.orig_clord_id
        lv_now = max(o.qty - o.cum_qty, 0.0)
        E, S = FExecType, FOrdStatus
        if what == "pending_new":
            return dict(clord_id=cur, exec_type=E.PENDING_NEW, ord_status=S.PENDING_NEW)
        if what == "ack":
            return dict(clord_id=cur, exec_type=E.NEW, ord_status=S.NEW, cum_qty=0.0, leaves_qty=o.qty)
        if what == "reject_new":
            return dict(clord_id=cur, exec_type=E.REJECTED, ord_status=S.REJECTED, cum_qty=0.0, leaves_qty=0.0)
        if what in ("partial", "trade_while_pending"):
            q = round(lv_now * frac, 4)
            if q <= 0:
                return None
            st_ = S.PARTIALLY_FILLED
            if what == "trade_while_pending":
                if not orig:
                    return None
                st_ = S.PENDING_CANCEL if o.status == S.PENDING_CANCEL else S.PENDING_REPLACE
            return dict(clord_id=orig or cur, exec_type=E.TRADE, ord_status=st_, cum_qty=o.cum_qty + q, leaves_qty=lv_now - q, last_qty=q, avg_price=o.price)
        if what == "fill":
            if lv_now <= 0:
                return None
            return dict(clord_id=cur, exec_type=E.TRADE, ord_status=S.FILLED, cum_qty=o.qty, leaves_qty=0.0, last_qty=lv_now, avg_price=o.price)
        if what == "pending_cancel":
            if not orig:
                return None
            return dict(clord_id=cur, exec_type=E.PENDING_CANCEL, ord_status=S.PENDING_CANCEL, cum_qty=o.cum_qty, leaves_qty=o.leaves_qty, orig_clord_id=orig)
        if what == "canceled":
            return dict(clord_id=cur, exec_type=E.CANCELED, ord_status=S.CANCELED, cum_qty=o.cum_qty, leaves_qty=0.0, orig_clord_id=orig)
        if what == "pending_replace":
            if not orig:
                return None
            return dict(clord_id=cur, exec_type=E.PENDING_REPLACE, ord_status=S.PENDING_REPLACE, orig_clord_id=orig)
        if what == "replaced":
            if not orig or self.last_req is None or str(self.last_req.msg_type) != str(FMsg.ORDERCANCELREPLACEREQUEST):
                return None
            nq, npx = float(self.last_req[FTag.OrderQty]), float(self.last_req[FTag.Price])
            if nq < o.cum_qty:
                return None
            st_ = S.NEW if o.cum_qty == 0 else (S.PARTIALLY_FILLED if o.cum_qty < nq else S.FILLED)
            return dict(clord_id=cur, exec_type=E.REPLACED, ord_status=st_, cum_qty=o.cum_qty, leaves_qty=nq - o.cum_qty, price=npx, order_qty=nq, orig_clord_id=orig)
        if what == "expired":
            return dict(clord_id=orig or cur, exec_type=E.EXPIRED, ord_status=S.EXPIRED, cum_qty=o.cum_qty, leaves_qty=0.0)
        if what == "suspended":
            return dict(clord_id=cur, exec_type=E.SUSPENDED, ord_status=S.SUSPENDED, cum_qty=o.cum_qty, leaves_qty=lv_now)
        if what == "restated":
            return dict(clord_id=cur, exec_type=E.RESTATED, ord_status=S.NEW if o.cum_qty == 0 else S.PARTIALLY_FILLED, cum_qty=o.cum_qty, leaves_qty=lv_now)
        if what == "status":
            # answer to an OrderStatusRequest: ExecType=I with the order's present status and quantities
            if o.status not in (S.NEW, S.PARTIALLY_FILLED, S.FILLED, S.CANCELED, S.SUSPENDED, S.EXPIRED, S.REJECTED):
                return None
            fin = str(o.status) in FIN
            return dict(clord_id=cur, exec_type=E.ORDER_STATUS, ord_status=o.status, cum_qty=o.cum_qty, leaves_qty=0.0 if fin else lv_now)
        if what == "done_for_day":
            return dict(clord_id=cur, exec_type=E.DONE_FOR_DAY, ord_status=S.DONE_FOR_DAY, cum_qty=o.cum_qty, leaves_qty=lv_now)
        return None


WARM = [[], [("extack",)], [("extack",), ("natural", "partial", 0.25, True)], [("natural", "ack", 0.5, True)], [("natural", "pending_new", 0.5, True), ("natural", "ack", 0.5, True)],
        [("natural", "ack", 0.5, True), ("natural", "partial", 0.25, True)],
        [("natural", "ack", 0.5, True), ("client", "cancel", 150.0, 5.0)],
        [("natural", "ack", 0.5, True), ("natural", "partial", 0.5, True), ("client", "replace-both", 150.0, 20.0)]]


def fab_shard(acc, n, seed, maxlen):
    # order size / price: small, seven and more digits, more than six significant digits, tiny
    order = st.tuples(st.just("order"), st.sampled_from([10.0, 10.0, 2500000.0, 100000.5, 12345.678, 0.0005, 7.0]), st.sampled_from([200.0, 200.0, 1234567.25, 0.015625, 99.99]))
    strat = st.tuples(order, st.sampled_from(WARM), st.lists(step, min_size=4, max_size=maxlen)).map(lambda x: [x[0]] + list(x[1]) + x[2])
    run_given(strat, lambda steps: Run(acc, steps).run(), n, seed)


FIXED = [
    [("order", 10.0, 200.0), ("extack",), ("natural", "partial", 0.25, True), ("natural", "status", 0.5, True), ("natural", "fill", 0.5, True)],
    [("order", 2500000.0, 1234567.25), ("natural", "ack", 0.5, True), ("natural", "partial", 0.25, True), ("natural", "partial", 0.5, True), ("natural", "fill", 0.5, True)],
    [("order", 100000.5, 0.015625), ("natural", "ack", 0.5, True), ("natural", "partial", 0.5, True), ("natural", "partial", 0.999, True), ("natural", "status", 0.5, True)],
    [("natural", "ack", 0.5, True), ("natural", "status", 0.5, True), ("natural", "partial", 0.25, True), ("natural", "status", 0.5, True), ("natural", "status", 0.5, False)],
    [("natural", "ack", 0.5, True), ("natural", "partial", 0.25, True), ("reset",), ("natural", "partial", 0.25, True), ("other-order",), ("natural", "fill", 0.5, True)],
    [("other-order",), ("natural", "ack", 0.5, True), ("reset",), ("other-order",), ("natural", "partial", 0.5, True)],
    # two reports fabricated back to back before the order processed any (OrderID must be stable)
    [("natural", "pending_new", 0.5, False), ("natural", "ack", 0.5, False), ("natural", "partial", 0.5, True), ("natural", "partial", 0.5, True)],
    [("natural", "ack", 0.5, True), ("client", "cancel", 150.0, 5.0), ("natural", "pending_cancel", 0.5, True), ("natural", "trade_while_pending", 0.5, True),
     ("reject", FOrdStatus.PARTIALLY_FILLED, True), ("client", "replace-both", 150.0, 20.0), ("natural", "pending_replace", 0.5, True), ("natural", "replaced", 0.5, True),
     ("natural", "fill", 0.5, True)],
]


def fixed(acc):
    for steps in FIXED:
        Run(acc, steps).run()
        acc.klass("fixed")


def many_reports(acc):
    """Scale: a dozen orders on one helper, one of them worked in 1100 one-lot fills (reports per order and orders per helper both
    cross digit counts): every ExecID fresh, every order keeps its OrderID, quantities consistent, each report valid."""
    ft = FIXTester(schema=None)
    orders = [FIXNewOrderSingle(f"ord{k}", "US.F.TICKER", side="1", price=100.0, qty=2000.0 if k == 0 else 10.0) for k in range(12)]
    seen, oid = {}, {}
    case = {"many_reports": True}

    def take(o, m, what):
        e = m.get(FTag.ExecID, None)
        if e in seen:
            acc.violation("C20:er/execid-repeated/at-scale", f"ExecID {e!r} issued for {what} was already used for {seen[e]}", case)
        seen[e] = what
        if oid.setdefault(o.clord_id_root, m.get(FTag.OrderID, None)) != m.get(FTag.OrderID, None):
            acc.violation("C20:er/orderid-unstable/at-scale", f"{what}: OrderID {m.get(FTag.OrderID, None)!r}, earlier reports of the order carried {oid[o.clord_id_root]!r}", case)
        if len(seen) % 97 == 0:
            try:
                with warnings.catch_warnings():
                    warnings.simplefilter("ignore")
                    schema().validate(m)
            except FIXMessageError as ex:
                acc.violation("C20:er/invalid-for-dictionary/at-scale", f"{what}: {str(ex)[:200]}", case)
        o.process_execution_report(m)
    try:
        for k, o in enumerate(orders):
            o.new_req()
            ft.order_register_single(o)
            take(o, ft.fix_exec_report_msg(o, o.clord_id, FExecType.NEW, FOrdStatus.NEW, cum_qty=0.0, leaves_qty=o.qty), f"ack of order {k}")
        a = orders[0]
        for i in range(1100):
            cum = float(i + 1)
            take(a, ft.fix_exec_report_msg(a, a.clord_id, FExecType.TRADE, FOrdStatus.PARTIALLY_FILLED, cum_qty=cum, leaves_qty=a.qty - cum, last_qty=1.0, avg_price=100.0), f"fill {i + 1} of order 0")
        for k, o in enumerate(orders[1:], 1):
            take(o, ft.fix_exec_report_msg(o, o.clord_id, FExecType.TRADE, FOrdStatus.FILLED, cum_qty=o.qty, leaves_qty=0.0, last_qty=o.qty, avg_price=100.0), f"fill of order {k}")
    except Exception as e:  # noqa
        acc.violation(f"C20:er/at-scale-raises/{type(e).__name__}", f"{type(e).__name__}: {e} after {len(seen)} reports", case)
    acc.extra["fabricated_messages"] = acc.extra.get("fabricated_messages", 0) + len(seen)
    acc.case(("many-reports",), cls=["many-reports"])


def session_factories(acc):
    ft = FIXTester(schema=None)
    cases = []
    for tags in (None, {}, {141: "Y"}, {553: "user", 554: "pw"}, {108: 5}, {98: 0, 108: 60}, {FTag.ResetSeqNumFlag: "N"}):
        cases.append(("msg_logon", (tags,), lambda t=tags: ft.msg_logon(t)))
    cases.append(("msg_logout", (), lambda: ft.msg_logout()))
    for t in (None, "TEST", 12345, "a b", "1695300000"):
        cases.append(("msg_heartbeat", (t,), lambda t=t: ft.msg_heartbeat(t)))
    for t in ("TEST", 12345, "id-1", 1):
        cases.append(("msg_test_request", (t,), lambda t=t: ft.msg_test_request(t)))
    for n in (1, 2, 17, 2**31):
        for new in (1, 2, n + 1, n + 100):
            for gf in (False, True):
                cases.append(("msg_sequence_reset", (n, new, gf), lambda n=n, new=new, gf=gf: ft.msg_sequence_reset(n, new, gf)))
    for b in (1, 2, 100, "3"):
        for e in ("0", 0, 5, "100", 2**31):
            cases.append(("msg_resend_request", (b, e), lambda b=b, e=e: ft.msg_resend_request(b, e)))
    for name, args, fn in cases:
        case = {"factory": name, "args": repr(args)}
        try:
            m = fn()
        except AssertionError:
            acc.klass("refused-by-helper-assert")
            continue
        except BaseException as e:  # noqa
            acc.violation(f"C20:session/{name}/raises/{type(e).__name__}", f"{name}{args!r} raised {type(e).__name__}: {e}", case)
            continue
        try:
            with warnings.catch_warnings():
                warnings.simplefilter("ignore")
                schema().validate(m)
        except FIXMessageError as e:
            acc.violation(f"C20:session/{name}/invalid-for-dictionary", f"{name}{args!r} -> {m!r} does not validate: {str(e)[:300]}", case)
        except BaseException as e:  # noqa
            acc.violation(f"C20:session/{name}/schema-raises/{type(e).__name__}", f"{type(e).__name__}: {e}", case)
        # the caller edits what it was handed (an explicit MsgSeqNum, an extra tag) and asks the helper again: the next
        # message must be fabricated afresh, not carry the edits
        try:
            before = repr(m)
            m.set(34, 99, replace=True)
            m.set(58, "edited by the caller", replace=True)
            m2 = fn()
            if repr(m2) != before:
                acc.violation(f"C20:session/{name}/not-fresh", f"{name}{args!r} after the caller edited the previous result returns {m2!r}, first call returned {before}", case)
        except AssertionError:
            pass
        except BaseException as e:  # noqa
            acc.violation(f"C20:session/{name}/second-call-raises/{type(e).__name__}", f"{type(e).__name__}: {e}", case)
        acc.case(("session", name, repr(args)), cls=["session-factory", name], sample={"factory": name, "args": repr(args), "msg": repr(m)} if len(acc.samples) < 2 else None)


def fidelity_shard(acc, **kw):
    from checks import c20_fidelity as F

    F.fidelity_shard(acc, **kw)


def fidelity_fixed(acc, **kw):
    from checks import c20_fidelity as F

    F.fidelity_fixed(acc, **kw)


def plan(tier, seed):
    jobs = [("fixed", {}), ("session_factories", {}), ("many_reports", {})]
    n, k, ml = (800, 8, 25) if tier == "quick" else (15000, 12, 60)
    jobs += [("fab_shard", {"n": n, "seed": derive_seed(seed, PROPERTY, "fab", i), "maxlen": ml}) for i in range(k)]
    from checks import c20_fidelity as F

    jobs += F.plan(tier, seed)
    return jobs


def replay(acc, case):
    if case.get("many_reports"):
        many_reports(acc)
        return
    if "script" in case:
        from checks import c20_fidelity as F

        F.replay(acc, case)
        return
    if "factory" in case:
        session_factories(acc)
        return
    steps = []
    for s in case["steps"]:
        s = list(s)
        if s[0] == "probe":
            s[1] = FExecType(s[1]) if not isinstance(s[1], FExecType) else s[1]
            s[2] = FOrdStatus(s[2]) if not isinstance(s[2], FOrdStatus) else s[2]
            s[6] = NAN if s[6] is None or (isinstance(s[6], float) and math.isnan(s[6])) or s[6] == "nan" else s[6]
            s[7] = NAN if s[7] is None or (isinstance(s[7], float) and math.isnan(s[7])) or s[7] == "nan" else s[7]
        elif s[0] == "reject":
            s[1] = FOrdStatus(s[1]) if not isinstance(s[1], FOrdStatus) else s[1]
        steps.append(tuple(s))
    Run(acc, steps).run()
