"""C17 - an order object converges to the exchange's view of the order."""
import copy

from hypothesis import strategies as st

from asyncfix import FMsg, FTag
from asyncfix.errors import FIXError
from asyncfix.protocol.common import FOrdStatus
from asyncfix.protocol.order_single import FIXNewOrderSingle
from vlib import ordermodel as X
from vlib.hyp import run_given
from vlib.runner import derive_seed

PROPERTY = "C17"
LEVEL = "exploration"


def RULE(tier):
    return (
        "A real FIXNewOrderSingle against a single-order exchange simulator (only FIX 4.4 matrix transitions, every "
        "request answered) joined by two FIFOs (requests -> exchange, reports -> client). Actions: client new / cancel "
        "/ replace(price, qty) / a no-op replace (documented refusal, must change nothing) whenever the order permits, deliver next report, exchange consumes next request "
        "(pending-ack | immediate accept | reject), exchange spontaneous ack / reject / partial fill / full fill / "
        "decide pending request / unsolicited cancel / expire / suspend / resume. Bounded-exhaustive DFS over all "
        f"action sequences to depth {DEPTH[tier]} (state-hash dedup) plus Hypothesis walks up to {WALK[tier]} actions with drawn ClOrdID "
        "roots ('-'-rich near misses of the '--<n>' suffix), prices, quantities (float and int objects, magnitudes 1e-5 .. 1e16) and fill fractions; five "
        "long chains of 14 requests on one order (suffix --9 -> --10, every 3rd / 4th / 5th / 10th rejected, a fill in between); every prefix is "
        "closed (deliver all, consume all, decide pending) on a copy. Per step: status is an FOrdStatus member; whenever "
        "can_cancel()/can_replace() the request builds without any exception, with an unused ClOrdID of the form <root>--<n> for the root the order was created with and OrigClOrdID = the "
        "exchange's live ClOrdID, and no request is outstanding. At closure: status, cum_qty, leaves_qty, price, qty equal (relative tolerance 1e-9) "
        "the exchange's; finished => is_finished() and no further requests. Non-trivial = run with a request racing a fill "
        "or a reject followed by a further request; distinct by action sequence."
    )


DEPTH = {"quick": 10, "thorough": 12}
WALK = {"quick": 40, "thorough": 120}
ASSUMPTIONS = [
    "exchange behaviours outside the FIX 4.4 matrices are not simulated (expiry of a suspended order, several requests outstanding, unsolicited replace, replace of a suspended order is rejected)",
    "ClOrdID roots never end in '--<ASCII digits>' and contain no control characters; avg_px is not compared",
    "reports of an acknowledged pending request carry (ClOrdID=request id, OrigClOrdID=live id); OrdStatus follows the FIX precedence rule",
]
STATUS_OF = {X.NEW: FOrdStatus.NEW, X.PARTIAL: FOrdStatus.PARTIALLY_FILLED, X.FILLED: FOrdStatus.FILLED, X.CANCELED: FOrdStatus.CANCELED,
             X.REJECTED: FOrdStatus.REJECTED, X.EXPIRED: FOrdStatus.EXPIRED, X.SUSPENDED: FOrdStatus.SUSPENDED, X.PENDING_NEW: FOrdStatus.PENDING_NEW}


class World:
    def __init__(self, root="ord", price=100.0, qty=10.0):
        self.root = root
        self.o = FIXNewOrderSingle(root, "T", "1", price, qty)
        self.ex = X.Exchange()
        self.to_ex = []  # request FIXMessages in flight
        self.to_cl = []  # report FIXMessages in flight
        self.sent_ids = []
        self.outstanding = None  # ClOrdID of the client's unanswered cancel/replace request
        self.flags = set()
        self.trace = []
        self.dead = False
        self.n_req = 0
        self.rejects_seen = 0

    def sig(self):
        o = self.o
        return (str(o.status), o.clord_id, o.orig_clord_id, o.qty, o.price, round(o.cum_qty, 6), round(o.leaves_qty, 6), self.ex.sig(),
                tuple(_msig(m) for m in self.to_ex), tuple(_msig(m) for m in self.to_cl), self.outstanding)


def _msig(m):
    return (str(m.msg_type), m.get(FTag.ClOrdID, ""), m.get(FTag.ExecType, ""), m.get(FTag.OrdStatus, ""), m.get(FTag.CumQty, ""), m.get(FTag.OrderQty, ""), m.get(FTag.Price, ""))


def enabled(w):
    """Deterministic list of enabled actions (tuples)."""
    acts = []
    o, ex = w.o, w.ex
    if w.dead:
        return acts
    if o.status == FOrdStatus.CREATED and not w.sent_ids:
        acts.append(("client_new",))
    else:
        try:
            cc, cr = o.can_cancel(), o.can_replace()
        except Exception:
            cc = cr = False
        if cc:
            acts.append(("client_cancel",))
        if cr:
            acts.append(("client_replace", "px"))
            acts.append(("client_replace", "qty-up"))
            acts.append(("client_replace", "qty-down"))
            acts.append(("client_replace", "noop"))
    if w.to_cl:
        acts.append(("deliver",))
    if w.to_ex:
        t = str(w.to_ex[0].msg_type)
        if t == str(FMsg.NEWORDERSINGLE):
            acts += [("consume", "pending"), ("consume", "ack"), ("consume", "reject")]
        else:
            acts += [("consume", "pending"), ("consume", "accept"), ("consume", "reject")]
    for a in X.SPONT:
        if ex.can(a):
            acts.append(("ex", a))
    return acts


def check_step(w, bad):
    """Invariants after every action."""
    o = w.o
    if not isinstance(o.status, FOrdStatus):
        bad("status-not-enum", f"order.status is {o.status!r} ({type(o.status).__name__}), not a member of FOrdStatus")
    for name, pred, build in (("cancel", "can_cancel", lambda c: c.cancel_req()), ("replace", "can_replace", lambda c: c.replace_req(o.price * 1.5 + 1.0, float("nan")))):
        try:
            can = getattr(o, pred)()
        except Exception as e:
            bad(f"{pred}-raises", f"{pred}() raised {type(e).__name__}: {e}")
            continue
        if w.ex.finished() and not w.to_cl and can:
            bad(f"finished-but-{pred}", f"exchange order is finished ({w.ex.status}) and every report was processed, yet {pred}() is True")
        if not can:
            continue
        if w.outstanding is not None:
            bad(f"second-request-permitted/{name}", f"{pred}() is True while request {w.outstanding} is still unanswered")
        c = copy.deepcopy(o)
        try:
            m = build(c)
        except BaseException as e:  # noqa
            bad(f"request-build-fails/{name}/{type(e).__name__}", f"{pred}() is True but building the request raised {type(e).__name__}: {e} "
                f"(status={o.status!r} clord_id={o.clord_id!r} orig_clord_id={o.orig_clord_id!r})")
            continue
        cid, orig = m.get(FTag.ClOrdID, None), m.get(FTag.OrigClOrdID, None)
        if cid in w.sent_ids:
            bad(f"clordid-reused/{name}", f"request would reuse ClOrdID {cid!r} (already sent: {w.sent_ids})")
        # "with the same root": the order's ClOrdIDs are <root>--<n> for the root it was created with
        root = w.root
        if not (isinstance(cid, str) and cid.startswith(root + "--") and cid[len(root) + 2:].isdigit()):
            bad(f"clordid-other-root/{name}", f"request would use ClOrdID {cid!r}, which is not of the form {root + '--<n>'!r} (ids sent so far: {w.sent_ids})")
        # the live id at the exchange as far as the client can know it: answers still in flight excluded
        if not w.to_cl and w.ex.known and orig != w.ex.live:
            bad(f"wrong-origclordid/{name}", f"request refers to OrigClOrdID {orig!r} but the order is live at the exchange as {w.ex.live!r}")


def apply(w, act, bad, frac=0.5, newpx=None, newqty=None):
    o, ex = w.o, w.ex
    k = act[0]
    w.trace.append(act)
    try:
        if k == "client_new":
            m = o.new_req()
            w.to_ex.append(m)
            w.sent_ids.append(m[FTag.ClOrdID])
        elif k in ("client_cancel", "client_replace"):
            if ex.cum > 0 or any(m.get(FTag.ExecType, "") == X.X_TRADE for m in w.to_cl):
                if w.to_cl or ex.tradable():
                    w.flags.add("request-racing-fill")
            if w.rejects_seen:
                w.flags.add("request-after-reject")
            if k == "client_replace" and act[1] == "noop":
                # documented refusal (FIXError "no price / qty change"); a refused call must leave the order untouched
                before = (o.clord_id, o.orig_clord_id, str(o.status), o.price, o.qty)
                try:
                    o.replace_req(o.price, float("nan"))
                    bad("noop-replace-accepted", "replace_req() with unchanged price/qty did not raise FIXError")
                except FIXError:
                    pass
                after = (o.clord_id, o.orig_clord_id, str(o.status), o.price, o.qty)
                if before != after:
                    bad("refused-request-changes-order", f"a refused replace_req() changed the order: {before} -> {after}")
                w.flags.add("refused-noop-replace")
                check_step(w, bad)
                return
            if k == "client_cancel":
                m = o.cancel_req()
            else:
                how = act[1]
                if newpx is not None and newpx == o.price:
                    newpx = o.price * 1.5 + 0.5  # replace_req documents FIXError for "no change": not a defect
                if newqty is not None and (newqty == o.qty or (how == "qty-down" and newqty > o.qty)):
                    newqty = o.qty * 2.0 + 5.0 if how == "qty-up" else o.qty / 2.0
                if how == "px":
                    m = o.replace_req(newpx if newpx is not None else o.price * 1.5 + 1.0, float("nan"))
                elif how == "qty-up":
                    m = o.replace_req(float("nan"), newqty if newqty is not None else o.qty * 2.0 + 5.0)
                else:
                    m = o.replace_req(float("nan"), newqty if newqty is not None else o.qty / 2.0)
            if m[FTag.ClOrdID] in w.sent_ids:
                bad("clordid-reused/sent", f"request sent with ClOrdID {m[FTag.ClOrdID]!r} used before: {w.sent_ids}")
            w.to_ex.append(m)
            w.sent_ids.append(m[FTag.ClOrdID])
            w.outstanding = m[FTag.ClOrdID]
            w.n_req += 1
        elif k == "deliver":
            m = w.to_cl.pop(0)
            if str(m.msg_type) == str(FMsg.ORDERCANCELREJECT):
                o.process_cancel_rej_report(m)
                w.rejects_seen += 1
                if m[FTag.ClOrdID] == w.outstanding:
                    w.outstanding = None
            else:
                o.process_execution_report(m)
                et = m[FTag.ExecType]
                if et in (X.X_CXL, X.X_REP) and m[FTag.ClOrdID] == w.outstanding:
                    w.outstanding = None
        elif k == "consume":
            req = X.Exchange.parse_request(w.to_ex.pop(0))
            w.to_cl += ex.consume(req, act[1])
        elif k == "ex":
            if act[1] in ("fill_part", "fill_all") and (ex.pending or w.to_ex):
                w.flags.add("request-racing-fill")
            w.to_cl += ex.act(act[1], frac)
    except BaseException as e:  # noqa
        bad(f"action-raises/{k}/{type(e).__name__}", f"{act} raised {type(e).__name__}: {e}")
        w.dead = True
        return
    check_step(w, bad)


def close_and_judge(w0, bad):
    """Runs a copy to quiescence (no new client requests) and compares with the exchange."""
    w = copy.deepcopy(w0)
    guard = 0
    while not w.dead and (w.to_cl or w.to_ex or w.ex.pending) and guard < 200:
        guard += 1
        if w.to_cl:
            apply(w, ("deliver",), bad)
        elif w.to_ex:
            apply(w, ("consume", "accept" if str(w.to_ex[0].msg_type) != str(FMsg.NEWORDERSINGLE) else "ack"), bad)
        else:
            apply(w, ("ex", "decide_accept"), bad)
    if w.dead or not w.ex.known:
        return
    o, ex = w.o, w.ex
    exp = STATUS_OF[ex.base_status()]
    if str(o.status) != str(exp.value):
        bad(f"closure/status/{exp.name}", f"after quiescence order.status={o.status!r} but the exchange has {exp.name}")
    for name, got, want in (("cum_qty", o.cum_qty, ex.cum), ("leaves_qty", o.leaves_qty, ex.leaves), ("price", o.price, ex.price), ("qty", o.qty, ex.qty)):
        if ex.status == X.PENDING_NEW and name in ("leaves_qty",):
            continue
        try:
            # relative: magnitudes reach down to 1e-5 and up to 1e16; values travel as decimal strings, so only arithmetic noise is tolerated
            ok = abs(float(got) - float(want)) <= 1e-9 * max(abs(float(got)), abs(float(want)))
        except Exception:
            ok = False
        if not ok:
            bad(f"closure/{name}", f"after quiescence order.{name}={got!r} but the exchange has {want!r} (status {exp.name})")
    if ex.finished():
        try:
            if not o.is_finished():
                bad("closure/not-finished", f"exchange finished the order ({exp.name}) but is_finished() is False (status {o.status!r})")
            if o.can_cancel() or o.can_replace():
                bad("closure/finished-accepts-requests", "finished order still permits cancel/replace")
        except Exception as e:
            bad("closure/predicate-raises", f"{type(e).__name__}: {e}")
    if w.outstanding is not None:
        bad("closure/request-unanswered", f"harness: request {w.outstanding} has no processed answer")


# ------------------------------------------------------------------ exploration
def dfs(acc, depth, first):
    """All action sequences up to `depth` whose first two actions' 3rd..: shard by index of the 3rd action."""
    seen = set()
    count = [0]

    def bad_for(w):
        def bad(sig, detail):
            acc.violation("C17:" + sig, detail + f" | trace={w.trace}", {"trace": [list(a) for a in w.trace], "root": "ord", "price": 100.0, "qty": 10.0})
        return bad

    def rec(w, d):
        s = w.sig()
        if (s, d) in seen or any((s, dd) in seen for dd in range(d + 1, depth + 1)):
            return
        seen.add((s, d))
        count[0] += 1
        close_and_judge(w, bad_for(w))
        nt = bool(w.flags)
        acc.case(tuple(w.trace) if nt else None, cls=["dfs"] + sorted(w.flags),
                 sample={"trace": [list(a) for a in w.trace], "order_status": str(w.o.status)} if nt and len(acc.samples) < 3 and len(w.trace) >= 7 else None)
        if d == 0 or w.dead:
            return
        acts = enabled(w)
        for i, a in enumerate(acts):
            if len(w.trace) == 3 and first is not None and i % first[1] != first[0]:
                continue
            w2 = copy.deepcopy(w)
            apply(w2, a, bad_for(w2))
            rec(w2, d - 1)

    rec(World(), depth)
    acc.extra["dfs_states"] = acc.extra.get("dfs_states", 0) + count[0]


ROOTS = ["ord", "a-", "a--", "a--b", "a--1x", "--", "x--y--z", "1", "my order", "ORD--7-", "a---", "é"]
step = st.tuples(st.integers(0, 400), st.sampled_from([0.1, 0.25, 0.5, 0.75, 0.999, 1 / 3]), st.sampled_from([1.0, 55.5, 100.0, 250.25, 7.7777777e-05]), st.sampled_from([1.0, 3.0, 7.5, 10.0, 20.0, 1000.0, 2.2222222e-05]))
# magnitudes whose float repr uses exponent form are in the domain too ("all positive quantities and prices")
# ... and so are prices / quantities given as int objects (qty=10), which later meet fractional replacements and fills
walk = st.tuples(st.sampled_from(ROOTS), st.sampled_from([1.0, 100.0, 0.01, 99.99, 8.75e-05, 1.23456789e-05, 2.5e16, 100, 7]),
                 st.sampled_from([1.0, 10.0, 2.5, 1000.0, 1.25e-05, 3.3333333e-05, 1.5e16, 10, 1000]), st.lists(step, min_size=25, max_size=120))


def run_walk(acc, root, price, qty, steps, maxlen):
    w = World(root, price, qty)
    case = {"root": root, "price": price, "qty": qty, "steps": [list(s) for s in steps[:maxlen]]}

    def bad(sig, detail):
        acc.violation("C17:" + sig, detail + f" | root={root!r} trace={w.trace}", case)

    for (choice, frac, px, q) in steps[:maxlen]:
        acts = enabled(w)
        if not acts:
            break
        # category first (client / deliver / consume / exchange), so that requests, answers and races are frequent;
        # order-ending exchange actions are chosen rarely
        cat = ["client", "deliver", "consume", "ex", "client", "deliver", "consume", "any"][choice % 8]
        pool = [a for a in acts if (cat == "client" and a[0].startswith("client")) or (cat == a[0]) or cat == "any"]
        if cat == "ex" and (choice // 8) % 4:
            pool = [a for a in pool if a[1] not in ("fill_all", "expire", "unsolicited_cancel", "reject_new")] or pool
        if not pool:
            pool = acts
        a = pool[(choice // 8) % len(pool)]
        apply(w, a, bad, frac=frac, newpx=px, newqty=q)
        if w.dead:
            break
    close_and_judge(w, bad)
    nt = bool(w.flags)
    acc.case((root, price, qty, tuple(w.trace)) if nt else None, cls=["walk"] + sorted(w.flags) + [f"requests={min(w.n_req, 3)}"],
             sample={"root": root, "trace": [list(a) for a in w.trace][:25]} if nt and len(acc.samples) < 6 and w.n_req >= 2 else None)


def long_chain(acc):
    """One order replaced / reject-ed many times in a row: the ClOrdID suffix crosses --9 -> --10 (and the exchange's ExecIDs
    cross digit counts), some requests rejected, a partial fill in between."""
    for root, reject_every in (("ord", 0), ("a--", 4), ("x--y--z", 3), ("order", 10), ("o-", 5)):
        w = World(root, 100, 10.0)
        case = {"long_chain": root, "reject_every": reject_every}

        def bad(sig, detail, w=w, case=case):
            acc.violation("C17:" + sig, detail + f" | root={w.root!r} long chain, {w.n_req} requests, trace tail={w.trace[-8:]}", case)
        guard = 0
        filled = False
        while w.n_req < 14 and not w.dead and guard < 600:
            guard += 1
            acts = enabled(w)
            if not acts:
                break
            pick = None
            for pref in (("deliver",), ("consume", "ack"), ("consume", "reject") if reject_every and w.n_req % reject_every == 0 else ("consume", "accept"), ("consume", "accept"),
                         ("ex", "decide_accept"), ("ex", "decide_reject") if False else ("ex", "ack_new"), ("client_new",),
                         ("client_replace", "px") if w.n_req % 3 else ("client_replace", "qty-up")):
                if pref in acts:
                    pick = pref
                    break
            if pick is None:
                pick = acts[0]
            apply(w, pick, bad, frac=0.1, newpx=100.0 + w.n_req, newqty=10.0 + w.n_req)
            if w.n_req == 7 and not filled and ("ex", "fill_part") in enabled(w):
                filled = True
                apply(w, ("ex", "fill_part"), bad, frac=0.1)
        close_and_judge(w, bad)
        acc.case(("long-chain", root), cls=["long-chain", f"requests={w.n_req}"])


def hyp_shard(acc, n, seed, maxlen):
    run_given(walk, lambda x: run_walk(acc, x[0], x[1], x[2], x[3], maxlen), n, seed)


def dfs_shard(acc, depth, part, parts):
    dfs(acc, depth, (part, parts))


def EXHAUSTIVE(tier):
    return False


def plan(tier, seed):
    jobs = [("dfs_shard", {"depth": DEPTH[tier], "part": i, "parts": 3}) for i in range(3)] + [("long_chain", {})]
    n, k = (700, 8) if tier == "quick" else (20000, 13)
    jobs += [("hyp_shard", {"n": n, "seed": derive_seed(seed, PROPERTY, i), "maxlen": WALK[tier]}) for i in range(k)]
    return jobs


def replay(acc, case):
    if "long_chain" in case:
        long_chain(acc)
        return
    if "steps" in case:
        run_walk(acc, case["root"], case["price"], case["qty"], [tuple(s) for s in case["steps"]], len(case["steps"]))
        return
    w = World(case.get("root", "ord"), case.get("price", 100.0), case.get("qty", 10.0))

    def bad(sig, detail):
        acc.violation("C17:" + sig, detail, case)

    for a in case["trace"]:
        apply(w, tuple(a), bad)
        if w.dead:
            break
    close_and_judge(w, bad)
    acc.case(None)
