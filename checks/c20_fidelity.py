"""C20 part 2 - fidelity of FIXTester's simulated acceptor: clean session scripts replayed once against the helper and
once against a real acceptor endpoint of the library over the simulated link; the initiator must see the same."""
from hypothesis import strategies as st

from asyncfix import FMsg, FTag
from asyncfix.connection import AsyncFIXConnection, ConnectionState
from asyncfix.fix_tester import FIXTester
from asyncfix.journaler import Journaler
from asyncfix.message import FIXMessage
from asyncfix.protocol import FIXProtocol44
from vlib.hyp import run_given
from vlib.reffix import ref_parse
from vlib.runner import derive_seed
from vlib.simnet import Recorder, World

STEPS = ["app-out", "app-in", "testreq-out", "testreq-in", "hb-out", "hb-in", "app-out", "app-in", "app-in-g", "app-out-big", "app-in-big"]
ENDS = [None, "logout-out", "logout-in"]
DROP = {"9", "10", "52"}


class RecConn(Recorder, AsyncFIXConnection):
    pass


class InitiatorProtocol(FIXProtocol44):
    """The initiator's own protocol definition: the stock table plus a group it does not list (NoContraBrokers)."""

    repeating_groups = {**FIXProtocol44.repeating_groups, "382": ["375", "337", "437", "438", "655"]}


assert "382" not in FIXProtocol44.repeating_groups


def app_msg_group(uid):
    m = app_msg(uid, "g")
    m.set_group(382, [{375: "BRK1", 337: "T1", 437: "5"}, {375: "BRK2", 437: "7"}])
    return m


def app_msg_big(uid, direction):
    m = app_msg(uid, direction)
    m.set(58, "z" * 75000)  # a frame larger than 64 KiB
    return m


def _content(msg):
    try:
        return _flat(msg)
    except Exception as e:  # what the application would hit when it reads the message
        return ("unreadable", type(e).__name__)


def norm_frames(frames):
    """Frames as field lists without BodyLength, CheckSum, SendingTime."""
    out = []
    for fr in frames:
        out.append([(t, v) for t, v in ref_parse(fr) if t not in DROP])
    return out


def norm_msgs(msgs):
    out = []
    for m in msgs:
        out.append(_flat(m))
    return out


def _flat(c):
    out = []
    for t, v in c.items():
        if c.is_group(t):
            items = c.get_group_list(t)
            out.append((t, str(len(items))))
            for it in items:
                out += _flat(it)
        elif t not in DROP:
            out.append((t, v))
    return out


def app_msg(uid, direction):
    return FIXMessage(FMsg.NEWORDERSINGLE, {11: f"{direction}{uid}", 55: "SYM", 54: "1", 38: "10", 40: "2", 44: "10.5", 60: "20230101-00:00:00.000"})


def callbacks(ep):
    out = []
    for kind, payload, _t in ep.events:
        if kind == "msg":
            out.append(("msg", payload.get(11, None), _content(payload) if str(payload.get(11, "")).startswith("g") else None))
        elif kind == "state":
            out.append(("state", ConnectionState(payload).name))
        elif kind == "logon":
            out.append(("logon", bool(payload)))
        elif kind == "logout":
            out.append(("logout", None))
        else:
            out.append((kind, None))
    return out


def run_helper(script, n_out, n_in, hb):
    """The script against FIXTester(connection=initiator)."""
    w = World()
    try:
        j = Journaler()
        if (n_out, n_in) != (1, 1):
            ses = j.create_or_load("ACCEPTOR", "INITIATOR")
            j.set_seq_num(ses, next_num_out=n_out, next_num_in=n_in)
        conn = RecConn(InitiatorProtocol(), "INITIATOR", "ACCEPTOR", j, "localhost", "64444", heartbeat_period=hb)
        conn._rec_init(w, "c")
        conn.send_on_active = True  # the initiator's application sends from inside on_state_change(ACTIVE), in both set-ups
        conn._connection_state = ConnectionState.NETWORK_CONN_ESTABLISHED
        ft = FIXTester(schema=None, connection=conn)
        w.advance(1.01)  # same virtual clock as the real setup (TestReqID is derived from the time)
        trace = []

        def call(coro):
            r = w.call(coro)
            if r[0] == "exc":
                raise r[1]
            if r[0] == "pending":
                raise RuntimeError("helper step blocked")
            return r[1]

        nproc = [0]

        def drain_acceptor():
            while ft.acceptor_rcv_que:
                # the documented index argument: default, first, last - the same message when exactly one is queued
                nproc[0] += 1
                idx = (None, 0, -1)[(nproc[0] + len(script)) % 3] if len(ft.acceptor_rcv_que) == 1 else None
                call(ft.process_msg_acceptor() if idx is None else ft.process_msg_acceptor(idx))

        uid = 0
        for stp in script:
            uid += 1
            if stp == "logon":
                call(conn.send_msg(ft.msg_logon({FTag.HeartBtInt: hb})))
            elif stp == "app-out":
                call(conn.send_msg(app_msg(uid, "o")))
            elif stp == "app-out-big":
                call(conn.send_msg(app_msg_big(uid, "o")))
            elif stp == "app-in-big":
                call(ft.reply(app_msg_big(uid, "i")))
            elif stp == "app-in":
                call(ft.reply(app_msg(uid, "i")))
            elif stp == "app-in-g":
                call(ft.reply(app_msg_group(uid)))
            elif stp == "testreq-out":
                conn._test_req_id = None
                call(conn.send_test_req())
            elif stp == "testreq-in":
                call(ft.reply(ft.msg_test_request(f"T{uid}")))
            elif stp == "hb-out":
                call(conn.send_msg(ft.msg_heartbeat()))
            elif stp == "hb-in":
                call(ft.reply(ft.msg_heartbeat()))
            elif stp == "logout-out":
                call(conn.send_msg(ft.msg_logout()))
            elif stp == "logout-in":
                call(ft.reply(ft.msg_logout()))
            drain_acceptor()
            trace.append((stp, conn.connection_state.name, conn._session.next_num_in, conn._session.next_num_out,
                          ft.conn_accept._session.next_num_in, ft.conn_accept._session.next_num_out))
        sent = norm_msgs(ft.initiator_sent)
        recv = norm_msgs(ft.acceptor_sent)
        return {"trace": trace, "sent": sent, "recv": recv, "callbacks": callbacks(conn), "acc_state": ft.conn_accept.connection_state.name}
    finally:
        w.close()


def run_real(script, n_out, n_in, hb):
    """The same script against a real acceptor endpoint over the simulated link."""
    w = World()
    try:
        cj, sj = Journaler(), Journaler()
        if (n_out, n_in) != (1, 1):
            ses = cj.create_or_load("ACCEPTOR", "INITIATOR")
            cj.set_seq_num(ses, next_num_out=n_out, next_num_in=n_in)
            ses = sj.create_or_load("INITIATOR", "ACCEPTOR")
            sj.set_seq_num(ses, next_num_out=n_in, next_num_in=n_out)
        s = w.make_server(journal=sj, hb=hb, sender="ACCEPTOR", target="INITIATOR")
        c = w.make_client(journal=cj, hb=hb, sender="INITIATOR", target="ACCEPTOR")
        c.auto_logon = False
        c.send_on_active = True
        from asyncfix.codec import Codec

        c._codec = Codec(InitiatorProtocol())  # the same initiator as in the helper run: its own protocol definition
        w.connect_client()
        ft = FIXTester(schema=None)  # only as a message factory
        trace = []

        def call(coro):
            r = w.call(coro)
            if r[0] == "exc":
                raise r[1]
            if r[0] == "pending":
                raise RuntimeError("real step blocked")
            return r[1]

        def settle():
            for _ in range(200):
                moved = False
                for frm in ("c", "s"):
                    while w.link.alive and w.link.fifo[frm]:
                        w.link.deliver(frm)
                        w.idle()
                        moved = True
                if not moved:
                    break

        uid = 0
        c.events.clear()
        for stp in script:
            uid += 1
            if stp == "logon":
                call(c.send_msg(ft.msg_logon({FTag.HeartBtInt: hb})))
            elif stp == "app-out":
                call(c.send_msg(app_msg(uid, "o")))
            elif stp == "app-out-big":
                call(c.send_msg(app_msg_big(uid, "o")))
            elif stp == "app-in-big":
                call(s.send_msg(app_msg_big(uid, "i")))
            elif stp == "app-in":
                call(s.send_msg(app_msg(uid, "i")))
            elif stp == "app-in-g":
                call(s.send_msg(app_msg_group(uid)))
            elif stp == "testreq-out":
                c._test_req_id = None
                call(c.send_test_req())
            elif stp == "testreq-in":
                s._test_req_id = f"T{uid}"
                call(s.send_msg(ft.msg_test_request(f"T{uid}")))
                s._test_req_id = None
            elif stp == "hb-out":
                call(c.send_msg(ft.msg_heartbeat()))
            elif stp == "hb-in":
                call(s.send_msg(ft.msg_heartbeat()))
            elif stp == "logout-out":
                call(c.send_msg(ft.msg_logout()))
            elif stp == "logout-in":
                call(s.send_msg(ft.msg_logout()))
            settle()
            trace.append((stp, c.connection_state.name, c._session.next_num_in, c._session.next_num_out, s._session.next_num_in, s._session.next_num_out))
        sent = norm_frames([b for link in w.links for _, b in link.writers["c"].written])
        recv = norm_frames([b for link in w.links for _, b in link.writers["s"].written])
        return {"trace": trace, "sent": sent, "recv": recv, "callbacks": callbacks(c), "acc_state": s.connection_state.name}
    finally:
        w.close()


def compare(acc, script, n_out, n_in, hb, origin):
    case = {"script": list(script), "n_out": n_out, "n_in": n_in, "hb": hb}

    def bad(sig, detail):
        acc.violation("C20:fidelity/" + sig, detail + f" | script={script} start out/in={n_out}/{n_in}", case)

    try:
        A = run_helper(script, n_out, n_in, hb)
    except BaseException as e:  # noqa
        bad(f"helper-raises/{type(e).__name__}", f"replaying the script against FIXTester raised {type(e).__name__}: {e}")
        acc.case(None, cls="fidelity/helper-raised")
        return
    try:
        B = run_real(script, n_out, n_in, hb)
    except BaseException as e:  # noqa
        raise RuntimeError(f"real replay failed: {type(e).__name__}: {e} script={script}")
    closing = script[-1].startswith("logout")
    # per-step view of the initiator; after a Logout the real transport is closed (EOF), which the helper has no
    # counterpart for: the last step's state is compared only up to "disconnected or not by the Logout itself"
    ta, tb = A["trace"], B["trace"]
    for i, (x, y) in enumerate(zip(ta, tb)):
        last = closing and i == len(ta) - 1
        if x[2:4] != y[2:4]:
            bad("initiator-counters", f"after step {i} {x[0]}: helper in/out {x[2:4]}, real acceptor in/out {y[2:4]}")
            break
        if x[4:6] != y[4:6] and not last:
            bad("acceptor-counters", f"after step {i} {x[0]}: simulated acceptor in/out {x[4:6]}, real acceptor in/out {y[4:6]}")
            break
        if x[1] != y[1] and not last:
            bad("initiator-state", f"after step {i} {x[0]}: {x[1]} against the helper, {y[1]} against a real acceptor")
            break
    if A["sent"] != B["sent"]:
        k = next((i for i, (p, q) in enumerate(zip(A["sent"], B["sent"])) if p != q), min(len(A["sent"]), len(B["sent"])))
        bad("frames-sent-by-initiator", f"frame #{k} differs or is missing: helper {A['sent'][k:k + 1]} vs real {B['sent'][k:k + 1]} ({len(A['sent'])} vs {len(B['sent'])} frames)")
    if A["recv"] != B["recv"]:
        k = next((i for i, (p, q) in enumerate(zip(A["recv"], B["recv"])) if p != q), min(len(A["recv"]), len(B["recv"])))
        bad("frames-from-acceptor", f"frame #{k} differs or is missing: helper {A['recv'][k:k + 1]} vs real {B['recv'][k:k + 1]} ({len(A['recv'])} vs {len(B['recv'])} frames)")
    ca, cb = A["callbacks"], B["callbacks"]
    if closing:
        # drop what only the transport closure causes
        cut = lambda L: [e for e in L if e[0] not in ("disconnect",) and not (e[0] == "state" and e[1].startswith("DISCONNECTED"))]  # noqa
        ca, cb = cut(ca), cut(cb)
    if ca != cb:
        bad("callbacks", f"initiator callbacks differ: helper {ca} vs real {cb}")
    both = any(s in ("app-in", "app-in-g", "app-in-big", "testreq-in", "hb-in") for s in script) and any(s in ("app-out", "app-out-big", "testreq-out", "hb-out") for s in script)
    acc.case(("fidelity", tuple(script), n_out, n_in, hb) if both else None, cls=["fidelity", f"fidelity/origin={origin}", "fidelity/asymmetric-counters" if n_out != n_in else "fidelity/symmetric"],
             sample={"fidelity_script": list(script), "start_out_in": [n_out, n_in], "frames_each_way": [len(B["sent"]), len(B["recv"])]} if both and len(acc.samples) < 8 and len(script) > 4 else None)


def fidelity_shard(acc, n, seed, maxlen):
    strat = st.tuples(st.lists(st.sampled_from(STEPS), min_size=0, max_size=maxlen), st.sampled_from(ENDS), st.sampled_from([(1, 1), (1, 1), (5, 3), (2, 9), (100, 100), (7, 1)]),
                      st.sampled_from([30, 5, 60]))
    run_given(strat, lambda x: compare(acc, ["logon"] + x[0] + ([x[1]] if x[1] else []), x[2][0], x[2][1], x[3], "hyp"), n, seed)


def fidelity_fixed(acc):
    for counters in ((1, 1), (5, 3), (3, 5)):
        for script in (["logon"], ["logon", "app-out", "app-in", "testreq-out", "testreq-in", "hb-out", "hb-in"], ["logon", "app-in", "app-in", "app-out", "logout-out"], ["logon", "app-in-g", "app-out", "app-in-g"], ["logon", "app-out-big", "app-in", "app-in-big", "testreq-out"],
                       ["logon", "testreq-in", "app-out", "logout-in"], ["logon", "logout-out"], ["logon", "logout-in"]):
            compare(acc, script, counters[0], counters[1], 30, "fixed")


def plan(tier, seed):
    n, k, ml = (120, 3, 14) if tier == "quick" else (3000, 6, 40)
    return [("fidelity_fixed", {})] + [("fidelity_shard", {"n": n, "seed": derive_seed(seed, "C20", "fid", i), "maxlen": ml}) for i in range(k)]


def replay(acc, case):
    compare(acc, case["script"], case["n_out"], case["n_in"], case["hb"], "replay")
