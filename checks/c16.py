"""C16 - order status transition function: total, closed, lifecycle-safe.

Exhaustive enumeration of the full finite domain against a constraint oracle
(DESIGN.md section C16).  Quick == thorough.
"""
from asyncfix import FMsg
from asyncfix.errors import FIXError
from asyncfix.protocol.common import FExecType, FOrdStatus
from asyncfix.protocol.order_single import FIXNewOrderSingle

PROPERTY = "C16"
LEVEL = "exploration"
RULE = (
    "full product: 15 statuses x 7 message kinds (4 supported + 3 unsupported) x 18 "
    "ExecTypes (17 + the '0' omitted marker) x 15 reported statuses x 2 error modes, "
    "each passed as enum members and as plain strings, each cell called in both orders of the two error modes "
    "(strict first / lenient first, separate fresh processes) and repeated once (purity); plus can_cancel/can_replace/"
    "is_finished for all 15 statuses. Non-trivial = a cell on which a constraint other "
    "than 'closed/total' applies; distinct by (spelling, status, kind, exectype, reported, call order)."
)
ASSUMPTIONS = [
    "FOrdStatus / FExecType / FMsg enumerate the whole domain (read from the working tree)",
    "OrderCancelReject cells: only closedness, never-CREATED and the FIX must-transit cells are asserted (absorbing/no-regress are FREE, see DESIGN.md)",
]


def EXHAUSTIVE(tier):
    return True


S = FOrdStatus
FINISHED = {"2", "4", "8", "C"}  # FILLED CANCELED REJECTED EXPIRED
ACKED = {"0", "1", "9", "6", "E", "3", "7", "B"}
REQ_OK = {"0", "1", "9"}
REQ_PENDING = {"6", "E"}
SUPPORTED = ["8", "9", "F", "G"]
UNSUPPORTED = ["D", "0", "ZZ"]

# natural ExecType for a reported status (FIX 4.4 Vol.4 matrices)
NATURAL_ET = {
    "0": ["0"],
    "1": ["F"],
    "2": ["F"],
    "4": ["4"],
    "6": ["6"],
    "E": ["E"],
    "C": ["C"],
    "3": ["3"],
    "8": ["8"],
}
MUST_ER = {
    "A": ["0", "8", "1", "2"],
    "0": ["1", "2", "4", "6", "E", "C", "3"],
    "1": ["1", "2", "4", "6", "E", "C"],
    "6": ["4"],
}
MUST_ER_REPLACED = ["0", "1", "2"]  # from PENDING_REPLACE with ExecType REPLACED
MUST_OCR_FROM = ["6", "E"]
MUST_OCR_TO = ["0", "1", "2", "4", "8", "C", "9"]


def _call(st, kind, et, ms, mode):
    try:
        r = FIXNewOrderSingle.change_status(st, kind, et, ms, raise_on_err=mode)
        return ("ret", r)
    except FIXError as e:
        if type(e) is not FIXError and not isinstance(e, FIXError):
            return ("other", repr(e))
        return ("err", None)
    except BaseException as e:  # noqa
        return ("other", f"{type(e).__name__}: {e}")


def _cell(acc, form, st_v, kind_v, et_v, ms_v, order="strict-first"):
    """Evaluate one cell in both modes (in the given order, then once more: the function must be
    pure); return True if non-trivial."""
    if form == "enum":
        st = S(st_v)
        ms = S(ms_v)
        kind = FMsg(kind_v) if kind_v != "ZZ" else "ZZ"
        et = FExecType(et_v) if et_v != "0#" else 0
    else:
        st, ms, kind = st_v, ms_v, kind_v
        et = et_v if et_v != "0#" else 0
    case = {"form": form, "st": st_v, "kind": kind_v, "et": et_v, "ms": ms_v, "order": order}
    if order == "strict-first":
        r1 = _call(st, kind, et, ms, True)
        r0 = _call(st, kind, et, ms, False)
    else:
        r0 = _call(st, kind, et, ms, False)
        r1 = _call(st, kind, et, ms, True)
    r1b = _call(st, kind, et, ms, True)
    r0b = _call(st, kind, et, ms, False)
    nontrivial = False
    if (r1b[0], str(r1b[1])) != (r1[0], str(r1[1])) or (r0b[0], str(r0b[1])) != (r0[0], str(r0[1])):
        acc.violation(f"C16:purity/result-changes-on-repeat/{kind_v}",
                      f"same arguments, different results: raise {r1}->{r1b}, noraise {r0}->{r0b}; cell={case}", case)

    def bad(sig, why):
        acc.violation(f"C16:{sig}", f"{why}; cell={case} raise->{r1} noraise->{r0}", case)

    for tag, r in (("raise", r1), ("noraise", r0)):
        if r[0] == "other":
            bad(f"closed/other-exception/{kind_v}", f"{tag}: unexpected exception {r[1]}")
            return False
        if r[0] == "ret" and r[1] is not None and str(r[1]) != ms_v:
            bad(f"closed/foreign-status/{kind_v}", f"{tag}: returned {r[1]!r} not the reported status")
            return False
    if kind_v in UNSUPPORTED:
        return False
    # supported kinds: modes agree, no-raise never raises
    if r0[0] != "ret":
        bad(f"modes/noraise-raised/{kind_v}", "raise_on_err=False raised")
        return False
    if r1[0] == "err":
        if r0[1] is not None:
            bad(f"modes/disagree/{kind_v}", "raise mode errors but no-raise mode returns a status")
    else:
        if (r1[1] is None) != (r0[1] is None):
            bad(f"modes/disagree/{kind_v}", "modes return different results")
    res = None if r1[0] == "err" else r1[1]
    res_v = None if res is None else str(res)
    outcome = "err" if r1[0] == "err" else ("none" if res is None else "transit")

    if kind_v in ("8", "9"):
        nontrivial = True
        if res_v == "Z":
            bad(f"lifecycle/back-to-created/{kind_v}", "report moved the order to CREATED")
    if kind_v == "8":
        if st_v in FINISHED and res_v is not None and res_v != st_v:
            bad(f"lifecycle/finished-not-absorbing/{st_v}", f"finished status left for {res_v}")
        if st_v in ACKED and res_v == "A":
            bad(f"lifecycle/back-to-pending-new/{st_v}", "acknowledged order moved back to PENDING_NEW")
        if st_v == "Z":
            if ms_v in ("A", "8"):
                if outcome != "transit":
                    bad("created/must-accept", f"CREATED must accept {ms_v}, got {outcome}")
            elif outcome == "transit":
                bad("created/accepts-other", f"CREATED accepted {ms_v}")
        if st_v in MUST_ER and ms_v in MUST_ER[st_v] and et_v in NATURAL_ET.get(ms_v, []):
            if outcome != "transit":
                bad(f"must-transit/ER/{st_v}->{ms_v}", f"FIX matrix transition refused ({outcome})")
        if st_v == "E" and et_v == "5" and ms_v in MUST_ER_REPLACED and outcome != "transit":
            bad(f"must-transit/ER-replaced/E->{ms_v}", f"replaced transition refused ({outcome})")
    elif kind_v == "9":
        if st_v in MUST_OCR_FROM and ms_v in MUST_OCR_TO and et_v == "0#":
            if outcome != "transit":
                bad(f"must-transit/OCR/{st_v}->{ms_v}", f"cancel reject did not restore status ({outcome})")
    else:  # requests F / G
        nontrivial = True
        if st_v in REQ_OK:
            if outcome != "transit":
                bad(f"request/refused-for-live/{st_v}", f"request refused from {st_v} ({outcome})")
        elif st_v in REQ_PENDING:
            if not (r1[0] == "ret" and r1[1] is None):
                bad(f"request/not-ignored-while-pending/{st_v}", f"expected 'no change' in both modes, got {r1}")
        else:
            if r1[0] != "err":
                bad(f"request/permitted-for-dead/{st_v}", f"request not refused from {st_v}: {r1}")
    return nontrivial


def _statuses():
    return [m.value for m in S]


def _exectypes():
    return [m.value for m in FExecType] + ["0#"]


def sweep(acc, form, kinds, order="strict-first"):
    sts, ets = _statuses(), _exectypes()
    assert len(sts) == 15 and len(ets) == 18, (len(sts), len(ets))
    for kind_v in kinds:
        for st_v in sts:
            for et_v in ets:
                for ms_v in sts:
                    nt = _cell(acc, form, st_v, kind_v, et_v, ms_v, order)
                    sig = (form, st_v, kind_v, et_v, ms_v, order)
                    sample = None
                    if nt and len(acc.samples) < 3 and (hash(sig) % 97 == 0):
                        sample = {"cell": sig}
                    acc.case(sig if nt else None, cls=[f"kind={kind_v}", f"order={order}"], sample=sample, n=4)
    if not acc.samples:
        acc.samples.append({"cell": [form, "0", kinds[0], "F", "2"]})


def predicates(acc):
    for st in S:
        o = FIXNewOrderSingle("root", "T", "1", 10.0, 5.0)
        o.status = st
        case = {"predicates": st.value}
        exp_req = st.value in REQ_OK
        try:
            got = (o.can_cancel(), o.can_replace(), o.is_finished())
        except BaseException as e:  # noqa
            acc.violation("C16:predicates/exception", f"{type(e).__name__}: {e} status={st}", case)
            continue
        exp = (exp_req, exp_req, st.value in FINISHED)
        if got != exp:
            acc.violation(
                f"C16:predicates/{st.value}",
                f"status={st.name} (can_cancel, can_replace, is_finished)={got} expected {exp}",
                case,
            )
        acc.case(("pred", st.value), cls="predicates", sample={"status": st.name, "result": got})


def plan(tier, seed):
    jobs = []
    # each shard is a fresh process; both call orders, so that state kept between calls (a cache keyed
    # without the error mode, say) cannot hide behind the order of enumeration
    for order in ("strict-first", "lenient-first"):
        for form in ("enum", "str"):
            for k in SUPPORTED:
                jobs.append(("sweep", {"form": form, "kinds": [k], "order": order}))
            jobs.append(("sweep", {"form": form, "kinds": UNSUPPORTED, "order": order}))
    jobs.append(("predicates", {}))
    return jobs


def replay(acc, case):
    if "predicates" in case:
        predicates(acc)
        return
    _cell(acc, case["form"], case["st"], case["kind"], case["et"], case["ms"], case.get("order", "strict-first"))
