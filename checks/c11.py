"""C11 - nothing passes to or from the application outside an established session."""
from hypothesis import strategies as st

from asyncfix import FMsg, FTag
from asyncfix.connection import ConnectionState
from asyncfix.errors import FIXConnectionError
from asyncfix.message import FIXMessage, MessageDirection
from vlib.hyp import run_given
from vlib.reffix import ref_encode, ref_get, ref_msg
from vlib.reffix import ref_parse as ref_parse_
from vlib.runner import derive_seed
from vlib.sess import Bench

PROPERTY = "C11"
LEVEL = "exploration"
RULE = (
    "EXHAUSTIVE product, each case built through real traffic on a real endpoint: state in {acceptor just connected, initiator "
    "connected before its Logon, initiator after sending Logon, the same three states on the second connection of an object that "
    "already had a session (the client having been logged on by the peer first), ACTIVE x2 roles (also with ten-digit counters beyond 2^31), RESENDREQ_AWAITING x2 roles} x inbound class in "
    "{Logon, Logout, Heartbeat, TestRequest, ResendRequest, GapFill, Reset, Reject, application} x defect in {none, wrong "
    "BeginString (FIX.4.2, FIX.4.4x, FIX.4.40, FIX.4.4.1, FIX.5.0, FIXT.1.1), SenderCompID missing / wrong / empty / padded with a blank / other case / one character longer / one character shorter, TargetCompID missing / wrong / padded with a tab / one character shorter, CompIDs swapped, MsgSeqNum missing, number below (also zero-padded wider than the expected number, and with fewer digits than it) / "
    "at / above the expected one}; then send attempts of every message class (application, Heartbeat, TestRequest, Logon, Logout, "
    "ResendRequest, Reject, SequenceReset), also in the three disconnected states; after every disconnect Hypothesis-drawn further "
    "input (valid frames, garbage, EOF) and virtual time. Oracle: pre-logon a non-Logon frame is never delivered nor acted upon and "
    "drops the connection, and what the application sends from inside on_state_change(ACTIVE) never overtakes the endpoint's own Logon (a Logout as the first frame of a connection produces no callback other than the disconnect); refused sends raise FIXConnectionError, write nothing, consume no number, leave no journal row; wrong "
    "BeginString frames have no effect; CompID / MsgSeqNum defects never reach on_message, never advance next_num_in, leave the "
    "endpoint disconnected (with a Logout carrying Text when the CompIDs were right); a disconnect is reported exactly once and "
    "nothing is emitted or called back afterwards; an acceptor whose first frame is a Logon it cannot answer as it stands (EncryptMethod and / or HeartBtInt absent) x one more frame of every class numbered at / above the expectation x send attempts: unless it answered with its own Logon, nothing is delivered, acted upon or counted and sends other than Logon / Logout are refused; one read carrying the frame that ends the connection followed by complete valid frames, then the object's next connection on which the new peer sends a single newline: nothing of the stale frames is delivered, answered or counted; the same three clauses under interleavings (the controlled scheduler of C14: the peer's EOF, a reset while senders wait in drain, or the application's disconnect() arrive while other tasks are suspended in drain or in a hook). Non-trivial = defect != none or pre-logon state; the product is enumerated completely."
)
ASSUMPTIONS = [
    "FREE: whether a Logout is written for wrong/missing CompIDs; too-low numbers while a resend is awaited, on SequenceReset or with PossDupFlag=Y; "
    "connection state after a discarded wrong-BeginString frame; a Logout or a Logon received pre-logon by an initiator that has not sent its own",
    "post-disconnect observation: 5 s, then for initiators 3.3 heartbeat intervals during which every reconnect attempt is refused by the network (a successful reconnect starts a new connection and is not 'after the disconnect')",
]
STATES = ["acc-connected", "init-connected", "init-logon-sent", "acc-active", "init-active", "acc-awaiting", "init-awaiting",
          # the same pre-logon states on the SECOND connection of one object (after a complete earlier session in which
          # the client was talked to first, i.e. took the acceptor part of the Logon exchange)
          "acc2-connected", "init2-connected", "init2-logon-sent",
          # ACTIVE on the second connection of an object whose first session was ended by the endpoint itself with a
          # Logout stating a reason (too-low MsgSeqNum)
          "acc2-active", "init2-active",
          # long-lived sessions with ten-digit counters
          "acc-active@big", "init-active@big"]
CLASSES = ["A", "5", "0", "1", "2", "GF", "RS", "3", "D"]
DEFECTS = ["none", "begin", "begin:FIX.4.4x", "begin:FIX.4.40", "begin:FIX.4.4.1", "begin:FIX.5.0", "begin:FIXT.1.1", "sender-missing", "sender-wrong", "sender-padded", "sender-case", "sender-longer", "sender-prefix", "sender-empty", "target-missing", "target-wrong", "target-padded", "target-prefix", "swapped", "seq-missing", "seq-low", "seq-low-padded", "seq-low-fewer-digits", "seq-at", "seq-high"]
SENDS = ["D", "0", "1", "A", "5", "2", "3", "4"]
PRE = {"acc-connected", "init-connected", "init-logon-sent", "acc2-connected", "init2-connected", "init2-logon-sent"}


def make_bench(state):
    role = "acceptor" if state.startswith("acc") else "initiator"
    if state == "init-connected":
        # an initiator whose application has not sent Logon yet
        from vlib.simnet import World
        from asyncfix.journaler import Journaler

        w = World()
        j = Journaler()
        ses = j.create_or_load("SRV", "CLI")
        j.set_seq_num(ses, next_num_out=4, next_num_in=4)
        c = w.make_client(journal=j)
        c.auto_logon = False
        w.connect_client()
        b = Bench.__new__(Bench)
        b.role, b.side, b.me, b.peer = "initiator", "c", "CLI", "SRV"
        b.w, b.ep, b.link = w, c, w.link
        b.reader, b.writer = w.link.readers["c"], w.link.writers["c"]
        b.mark()
        return b
    if state.startswith(("acc2", "init2")):
        return second_connection(state)
    if state.endswith("@big"):
        # a long-lived session: ten-digit counters (beyond 2^31)
        return Bench(role, "active", next_in=2**31 + 5, next_out=2**31 + 1)
    start = {"connected": "connected", "logon-sent": "connected", "active": "active", "awaiting": "awaiting-mid"}[state.split("-", 1)[1]]
    return Bench(role, start, next_in=14, next_out=4)


class SetupViolation(Exception):
    """In-domain traffic (a clean session, a connection loss, a fresh connection, the client's own Logon) did not lead to
    the state the case starts from: that is a verdict about the endpoint, not a harness problem."""


def second_connection(state):
    """An endpoint object on its second connection: first a complete session (for the client: the peer logs on
    first, so the client answered as acceptor), a connection loss, then a fresh transport."""
    from asyncfix import FMsg as _F
    from asyncfix.message import FIXMessage as _M

    if state in ("acc2-active", "init2-active"):
        role = "acceptor" if state.startswith("acc") else "initiator"
        b = Bench(role, "active", next_in=4, next_out=4)
        b.feed(b.frame("0", b.E - 1))  # too low -> Logout with a reason text, disconnect
        if not b.disconnected():
            raise SetupViolation(f"a too-low Heartbeat on an ACTIVE session did not end it: {b.ep.connection_state!r}")
        b.w.advance(1.01)
        if role == "acceptor":
            b.link = b.w.attach_server_only()
        else:
            b.w.connect_client()
            b.link = b.w.link
        b.reader, b.writer = b.link.readers[b.side], b.link.writers[b.side]
        b.feed(b.frame("A", b.E, [(98, 0), (108, 30)]))
        b.mark()
        return b
    if state.startswith("acc2"):
        b = Bench("acceptor", "active", next_in=4, next_out=4)
        b.feed(b.frame("D", b.E, [(11, "first-session")]))
        b.link.break_("eof")
        b.w.idle()
        b.w.advance(1.01)
        b.link = b.w.attach_server_only()
        b.reader, b.writer = b.link.readers["s"], b.link.writers["s"]
        b.mark()
        return b
    b = make_bench("init-connected")
    # the counterparty talks first: the client takes the acceptor part of the Logon exchange
    b.feed(b.frame("A", b.E, [(98, 0), (108, 30)]))
    if b.ep.connection_state.name != "ACTIVE":
        raise SetupViolation(f"a client that receives the peer's Logon first did not establish the session: {b.ep.connection_state!r}")
    b.feed(b.frame("D", b.E, [(11, "first-session")]))
    b.w.link.break_("eof")
    b.w.idle()
    b.w.advance(1.01)
    b.w.connect_client()
    b.link = b.w.link
    b.reader, b.writer = b.link.readers["c"], b.link.writers["c"]
    if state == "init2-logon-sent":
        r = b.w.call(b.ep.send_msg(_M(_F.LOGON, {98: 0, 108: 30})))
        if r[0] != "ok":
            raise SetupViolation(f"the client's own Logon on its second connection was refused: {r[1]!r}")
    b.mark()
    return b


def body_for(cls, uid, E):
    if cls == "A":
        return "A", [(98, 0), (108, 30)]
    if cls == "5":
        return "5", [(58, "bye")]
    if cls == "0":
        return "0", []
    if cls == "1":
        return "1", [(112, f"T{uid}")]
    if cls == "2":
        return "2", [(7, 1), (16, 0)]
    if cls == "GF":
        return "4", [(123, "Y"), (36, E + 3)]
    if cls == "RS":
        return "4", [(36, E + 3)]
    if cls == "3":
        return "3", [(45, 2), (58, "rejected")]
    return "D", [(11, f"ord{uid}"), (55, "X"), (54, 1), (38, 1)]


def build_frame(b, cls, defect, E, uid):
    mt, fields = body_for(cls, uid, E)
    sender, target = b.peer, b.me
    seq = {"seq-low": max(E - 1, 1), "seq-high": E + 2,
           "seq-low-padded": "%0*d" % (len(str(E)) + 2, max(E - 1, 1)),  # too low, written zero-padded wider than the expected number
           "seq-low-fewer-digits": max(10 ** (len(str(E)) - 1) - 1, 1)}.get(defect, E)  # too low with fewer digits (9 vs 14, 999999999 vs 2^31)
    hdr = [(49, sender), (56, target), (34, seq), (52, "20230101-00:00:00.000")]
    if defect == "sender-missing":
        hdr = [h for h in hdr if h[0] != 49]
    elif defect == "sender-wrong":
        hdr[0] = (49, "EVIL")
    elif defect == "sender-padded":
        hdr[0] = (49, sender + " ")
    elif defect == "sender-case":
        hdr[0] = (49, sender.swapcase())
    elif defect == "sender-prefix":
        hdr[0] = (49, sender[:-1])
    elif defect == "sender-empty":
        hdr[0] = (49, "")
    elif defect == "sender-longer":
        hdr[0] = (49, sender + "2")
    elif defect == "target-padded":
        hdr[1] = (56, "\t" + target)
    elif defect == "target-prefix":
        hdr[1] = (56, target[:-1])
    elif defect == "target-missing":
        hdr = [h for h in hdr if h[0] != 56]
    elif defect == "target-wrong":
        hdr[1] = (56, "OTHER")
    elif defect == "swapped":
        hdr[0], hdr[1] = (49, target), (56, sender)
    elif defect == "seq-missing":
        hdr = [h for h in hdr if h[0] != 34]
    begin = b"FIX.4.2" if defect == "begin" else (defect.split(":", 1)[1].encode() if defect.startswith("begin:") else b"FIX.4.4")
    return ref_encode(mt, hdr + fields, begin=begin)


def snapshot(b):
    ep = b.ep
    return {
        "E": ep._session.next_num_in, "N": ep._session.next_num_out, "state": ep.connection_state,
        "written": len(b.link.writers[b.side].written), "msgs": len(ep.app_msgs), "events": len(ep.events),
        "disc": ep.disconnects, "out_rows": len(list(ep._journaler.recover_messages(ep._session, MessageDirection.OUTBOUND, 0, 2**62))),
    }


def try_sends(acc, b, state_label, case, bad, limbo=False):
    """Send attempts of every message class in the endpoint's current state (limbo: connected, a Logon was received but this
    endpoint has not answered it with its own - no Logon exchange has completed)."""
    ep = b.ep
    for mt in SENDS:
        st0 = ep.connection_state
        disconnected = st0 <= ConnectionState.DISCONNECTED_BROKEN_CONN
        if disconnected:
            must_refuse = True
        elif limbo:
            must_refuse = mt not in ("A", "5")
        elif st0 == ConnectionState.NETWORK_CONN_ESTABLISHED:
            must_refuse = mt not in ("A", "5")
        elif st0 == ConnectionState.LOGON_INITIAL_SENT:
            must_refuse = mt != "5"
        else:
            must_refuse = mt == "1"  # TestRequest only through send_test_req()
        if not must_refuse:
            continue  # allowed sends are C05's business (and would change the state under test)
        msg = FIXMessage(FMsg(mt) if mt in FMsg else mt)
        if mt == "D":
            msg.set(11, "x")
        elif mt == "A":
            msg.set(98, 0)
            msg.set(108, 30)
        elif mt == "1":
            msg.set(112, "T")
        elif mt == "2":
            msg.set(7, 1)
            msg.set(16, 0)
        elif mt == "3":
            msg.set(45, 1)
        elif mt == "4":
            msg.set(34, 1)
            msg.set(36, 5)
        s0 = snapshot(b)
        r = b.w.call(ep.send_msg(msg))
        s1 = snapshot(b)
        c2 = dict(case, send=mt, send_state=st0.name)
        if r[0] != "exc":
            bad(f"send-not-refused/{st0.name}/{mt}", f"send_msg({mt}) in state {st0.name} returned {r[0]} instead of raising FIXConnectionError", c2)
        elif not isinstance(r[1], FIXConnectionError):
            bad(f"send-wrong-exception/{st0.name}/{mt}/{type(r[1]).__name__}", f"send_msg({mt}) in state {st0.name} raised {type(r[1]).__name__}: {r[1]}", c2)
        if s1["written"] != s0["written"]:
            bad(f"refused-send-wrote/{st0.name}/{mt}", f"refused send_msg({mt}) in {st0.name} wrote {s1['written'] - s0['written']} frame(s)", c2)
        if s1["N"] != s0["N"]:
            bad(f"refused-send-consumed-number/{st0.name}/{mt}", f"refused send_msg({mt}) in {st0.name} moved next_num_out {s0['N']} -> {s1['N']}", c2)
        if s1["out_rows"] != s0["out_rows"]:
            bad(f"refused-send-journaled/{st0.name}/{mt}", f"refused send_msg({mt}) in {st0.name} left a journal row", c2)
        if s1["state"] != s0["state"]:
            bad(f"refused-send-changed-state/{st0.name}/{mt}", f"refused send_msg({mt}) changed the state {s0['state'].name} -> {s1['state'].name}", c2)
        acc.klass(f"send-refused/{st0.name}")


def after_disconnect(acc, b, extra, case, bad):
    """Nothing may be emitted or called back after a disconnect; it is reported exactly once."""
    ep = b.ep
    s0 = snapshot(b)
    b.w.refuse_connect = True
    old_reader = b.link.readers[b.side]
    for item in extra:
        if item == "EOF":
            old_reader.feed_eof()
        else:
            old_reader.feed(item)
        b.w.idle()
    b.w.advance(5.0)
    s1 = snapshot(b)
    if s1["written"] != s0["written"]:
        bad("post-disconnect/frame-written", f"{s1['written'] - s0['written']} frame(s) written after the disconnect", case)
    if s1["msgs"] != s0["msgs"]:
        bad("post-disconnect/on_message", "on_message called after the disconnect", case)
    new_ev = [e[0] for e in ep.events[s0["events"]:]]
    if new_ev:
        bad("post-disconnect/callback", f"callbacks after the disconnect: {new_ev}", case)
    if s1["E"] != s0["E"] or s1["N"] != s0["N"]:
        bad("post-disconnect/counters", f"counters moved after the disconnect: in {s0['E']}->{s1['E']} out {s0['N']}->{s1['N']}", case)
    if b.role == "initiator" and getattr(ep, "heartbeat_period", None):
        # a longer window: the client's automatic reconnect attempts come due and FAIL (the network refuses them). No
        # connection is ever established again, so the one disconnect stays reported once and nothing else is called back
        b.w.advance(float(ep.heartbeat_period) * 3.3 + 3)
        s2 = snapshot(b)
        ev2 = [e[0] for e in ep.events[s1["events"]:]]
        if s2["disc"] != s1["disc"] or "disconnect" in ev2:
            bad("post-disconnect/disconnect-reported-again-on-failed-reconnect", f"on_disconnect count {s1['disc']} -> {s2['disc']} while reconnect attempts were refused; callbacks {ev2}", case)
        elif [e for e in ev2 if e != "state"]:
            bad("post-disconnect/callback-on-failed-reconnect", f"callbacks while reconnect attempts were refused: {ev2}", case)
        if s2["written"] != s1["written"] or s2["msgs"] != s1["msgs"] or s2["E"] != s1["E"] or s2["N"] != s1["N"]:
            bad("post-disconnect/activity-on-failed-reconnect", f"frames/messages/counters changed while reconnect attempts were refused: {s1} -> {s2}", case)
        acc.klass("failed-reconnect-window")


def one_case(acc, state, cls, defect, extra=(), uid=1):
    case = {"state": state, "cls": cls, "defect": defect, "extra": list(extra)}
    try:
        b = make_bench(state)
    except SetupViolation as e:
        acc.violation("C11:setup/" + state, f"{e} | state={state}", case)
        acc.case(None, cls="setup-failed")
        return

    def bad(sig, detail, c=None):
        acc.violation("C11:" + sig, detail + f" | state={state} class={cls} defect={defect}", c or case)

    try:
        ep = b.ep
        exp_state = {"acc2-connected": "NETWORK_CONN_ESTABLISHED", "init2-connected": "NETWORK_CONN_ESTABLISHED", "init2-logon-sent": "LOGON_INITIAL_SENT",
                     "acc-connected": "NETWORK_CONN_ESTABLISHED", "init-connected": "NETWORK_CONN_ESTABLISHED", "init-logon-sent": "LOGON_INITIAL_SENT",
                     "acc-active": "ACTIVE", "init-active": "ACTIVE", "acc2-active": "ACTIVE", "init2-active": "ACTIVE", "acc-awaiting": "RESENDREQ_AWAITING", "init-awaiting": "RESENDREQ_AWAITING",
                     "acc-active@big": "ACTIVE", "init-active@big": "ACTIVE"}[state]
        if ep.connection_state.name != exp_state:
            bad("setup/state-not-reached", f"clean traffic led to {ep.connection_state.name}, expected {exp_state}")
            return
        E = ep._session.next_num_in
        pre = state in PRE
        ep.send_on_active = True  # the application answers "ACTIVE" by sending at once, from inside on_state_change
        if defect.startswith("seq-low") and E < 2:
            return
        fr = build_frame(b, cls, defect, E, uid)
        s0 = snapshot(b)
        b.mark()
        b.feed(fr)
        s1 = snapshot(b)
        wr = b.written()
        evs = [e[0] for e in b.events()]
        disc_now = b.disconnected()
        seqreset = cls in ("GF", "RS")
        compid_defect = defect in ("sender-missing", "sender-wrong", "target-missing", "target-wrong", "swapped") or (defect.startswith(("sender-", "target-")) and defect.split("-")[-1] in ("padded", "case", "longer", "prefix", "empty"))

        def expect_dropped(reason, logout_required):
            if s1["msgs"] != s0["msgs"]:
                bad(f"delivered/{reason}", "on_message was called")
            if "logon" in evs:
                bad(f"on_logon/{reason}", "on_logon was called")
            if s1["E"] != s0["E"]:
                bad(f"inbound-counter-advanced/{reason}", f"next_num_in {s0['E']} -> {s1['E']}")
            if not disc_now:
                bad(f"not-disconnected/{reason}", f"endpoint is {ep.connection_state.name}")
            else:
                if evs.count("disconnect") != 1:
                    bad(f"disconnect-reported-{evs.count('disconnect')}-times/{reason}", f"callbacks: {evs}")
                if logout_required:
                    lo = [p for _, p in wr if ref_get(p, 35) == "5"]
                    if not lo or not ref_get(lo[-1], 58):
                        bad(f"no-logout-with-reason/{reason}", f"frames written: {[ref_get(p, 35) for _, p in wr]}")
                acted = [ref_get(p, 35) for _, p in wr if ref_get(p, 35) not in ("5",)]
                if acted:
                    bad(f"acted-upon/{reason}", f"endpoint answered with {acted}")

        if defect.startswith("begin"):
            if s1["msgs"] != s0["msgs"] or evs or s1["E"] != s0["E"] or s1["N"] != s0["N"] or wr:
                bad("wrong-beginstring-had-effect", f"callbacks={evs} written={[ref_get(p, 35) for _, p in wr]} E {s0['E']}->{s1['E']}")
        elif pre and cls != "A":
            if cls == "5":
                if s1["msgs"] != s0["msgs"] or "logon" in evs:
                    bad("delivered/pre-logon-logout", "callbacks for a Logout before the session was established")
                # a Logout answering our own Logon (initiator, Logon sent) is the counterparty's refusal and may be reported; a Logout
                # as the very first frame on a connection that has not sent anything is "a first inbound message other than Logon"
                if state in ("acc-connected", "acc2-connected", "init-connected", "init2-connected") and [e for e in evs if e not in ("disconnect", "state")]:
                    bad("callback/pre-logon-logout-first-frame", f"callbacks {evs} for a Logout that is the first frame of the connection")
            else:
                expect_dropped("pre-logon", False)
        elif pre and cls == "A":
            if state in ("init-connected", "init2-connected"):
                pass  # FREE
            elif compid_defect or defect == "seq-missing":
                expect_dropped("pre-logon-" + defect, defect == "seq-missing")
            elif defect in ("seq-low", "seq-low-padded", "seq-low-fewer-digits"):
                expect_dropped("pre-logon-" + defect, True)
        else:  # logged on
            if compid_defect:
                expect_dropped(defect, False)
            elif defect == "seq-missing":
                expect_dropped(defect, True)
            elif defect in ("seq-low", "seq-low-padded", "seq-low-fewer-digits") and not seqreset and "awaiting" not in state:
                expect_dropped(defect, True)
        # whatever the application sends when it is told "ACTIVE" must not overtake this endpoint's own Logon: a frame
        # other than Logon / Logout before the own Logon is a send before the Logon exchange has completed
        mts = [ref_get(p, 35) for _, p in wr]
        if pre and "A" in mts and any(m not in ("A", "5") for m in mts[:mts.index("A")]):
            bad("sent-before-own-logon", f"frames written while answering the Logon: {mts} (an application message left before this endpoint's Logon)")
        if pre and (ep.connection_state.name in ("ACTIVE", "RESENDREQ_AWAITING", "RESENDREQ_HANDLING") or "logon" in evs or s1["msgs"] != s0["msgs"]):
            sent_logon = any(ref_get(ref_parse_(x), 35) == "A" for x in b.all_written())
            if not sent_logon:
                bad("established-without-own-logon", f"endpoint is {ep.connection_state.name} (callbacks {evs}) although it never sent a Logon on this connection")
        nt = defect != "none" or pre
        acc.case((state, cls, defect, tuple(extra)) if nt else None, cls=[f"state={state}", f"defect={defect}", "disconnected" if disc_now else "connected"],
                 sample={"state": state, "class": cls, "defect": defect, "after": ep.connection_state.name, "written": [ref_get(p, 35) for _, p in wr]}
                 if nt and len(acc.samples) < 6 and defect in ("swapped", "seq-low") and cls == "D" else None)
        try_sends(acc, b, state, case, bad)
        if b.disconnected():
            after_disconnect(acc, b, extra or [ref_msg("D", b.peer, b.me, E, [(11, "late")]), ref_msg("1", b.peer, b.me, E + 1, [(112, "X")]), "EOF"], case, bad)
    finally:
        b.close()


LOGON_BODY = {"no-108": [(98, 0)], "no-98": [(108, 30)], "no-98-108": [], "no-98-108-other": [(141, "Y"), (553, "user")]}


def logon_body_case(acc, state, lb, cls, at, uid=1):
    """An acceptor whose FIRST frame is a Logon that cannot be answered as it stands (EncryptMethod / HeartBtInt absent), then
    one more frame of every class numbered at / above the expectation, then send attempts. Three outcomes of the Logon are
    legitimate: the endpoint drops the connection, or it answers with its own Logon (exchange completed, everything after is
    judged elsewhere), or it stays connected without answering - and then no Logon exchange has completed: nothing may be
    delivered, acted upon or counted, and sends other than Logon / Logout must be refused."""
    case = {"logon_body": lb, "state": state, "cls": cls, "at": at}
    try:
        b = make_bench(state)
    except SetupViolation as e:
        acc.violation("C11:setup/" + state, f"{e} | state={state}", case)
        acc.case(None, cls="setup-failed")
        return

    def bad(sig, detail, c=None):
        acc.violation("C11:" + sig, detail + f" | state={state} logon={lb} then class={cls} at E+{at}", c or case)

    try:
        ep = b.ep
        if ep.connection_state.name != "NETWORK_CONN_ESTABLISHED":
            bad("setup/state-not-reached", f"clean traffic led to {ep.connection_state.name}")
            return
        E = ep._session.next_num_in
        b.mark()
        b.feed(ref_encode("A", [(49, b.peer), (56, b.me), (34, E), (52, "20230101-00:00:00.000")] + LOGON_BODY[lb]))
        wr = b.written()
        evs = [e[0] for e in b.events()]
        mts = [ref_get(p, 35) for _, p in wr]
        if "A" in mts:
            outcome = "answered"
        elif b.disconnected():
            outcome = "dropped"
            if evs.count("disconnect") != 1:
                bad(f"disconnect-reported-{evs.count('disconnect')}-times/logon-{lb}", f"callbacks: {evs}")
        else:
            outcome = "limbo"
        if outcome != "answered":
            if "logon" in evs:
                bad(f"on_logon/unanswered-logon-{lb}", f"callbacks {evs} although this endpoint never sent its Logon")
            if ep._session.next_num_in != E:
                bad(f"inbound-counter-advanced/unanswered-logon-{lb}", f"next_num_in {E} -> {ep._session.next_num_in}")
            acted = [m for m in mts if m not in ("5",)]
            if acted:
                bad(f"acted-upon/unanswered-logon-{lb}", f"endpoint wrote {acted}")
        acc.case(("logon-body", state, lb, cls, at), cls=[f"state={state}", f"logon-body={lb}", f"logon-outcome={outcome}"],
                 sample={"state": state, "logon": lb, "outcome": outcome, "written": mts} if len(acc.samples) < 3 else None)
        if outcome == "answered":
            return
        mt, fields = body_for(cls, uid, E)
        follow = ref_encode(mt, [(49, b.peer), (56, b.me), (34, E + at), (52, "20230101-00:00:01.000")] + fields)
        if outcome == "limbo":
            s0 = snapshot(b)
            b.mark()
            b.feed(follow)
            s1 = snapshot(b)
            wr2 = [ref_get(p, 35) for _, p in b.written()]
            evs2 = [e[0] for e in b.events()]
            if cls == "A":
                pass  # a second, complete Logon: FREE (the exchange may complete now)
            else:
                if s1["msgs"] != s0["msgs"]:
                    bad(f"delivered/no-logon-exchange/{cls}", f"on_message was called for a {mt} although this endpoint never answered the Logon (state {s0['state'].name})")
                if "logon" in evs2:
                    bad(f"on_logon/no-logon-exchange/{cls}", f"callbacks {evs2}")
                if s1["E"] != s0["E"]:
                    bad(f"inbound-counter-advanced/no-logon-exchange/{cls}", f"next_num_in {s0['E']} -> {s1['E']} (state {s0['state'].name})")
                acted = [m for m in wr2 if m != "5"]
                if acted:
                    bad(f"acted-upon/no-logon-exchange/{cls}", f"endpoint answered a {mt} with {acted} although no Logon exchange has completed")
                if evs2.count("disconnect") > 1:
                    bad(f"disconnect-reported-{evs2.count('disconnect')}-times/no-logon-exchange", f"callbacks: {evs2}")
            if not b.disconnected() and "A" not in wr2:
                try_sends(acc, b, state, case, bad, limbo=True)
        if b.disconnected():
            try_sends(acc, b, state, case, bad)
            after_disconnect(acc, b, [follow, ref_msg("1", b.peer, b.me, E + 1, [(112, "X")]), "EOF"], case, bad)
    finally:
        b.close()


def logon_body(acc):
    uid = 0
    for state in ("acc-connected", "acc2-connected"):
        for lb in LOGON_BODY:
            for cls in CLASSES:
                for at in (0, 1):
                    uid += 1
                    logon_body_case(acc, state, lb, cls, at, uid=uid)


def stale_buffer(acc):
    """One read carries a frame that ends the connection (too-low MsgSeqNum -> Logout; wrong CompID) FOLLOWED by complete
    valid frames. Those belong to the connection that just died: on the next connection of the same object nothing of them
    may be delivered, answered or counted - there the Logon exchange has not even begun."""
    for role in ("acceptor", "initiator"):
        for killer in ("seq-low", "sender-wrong"):
            for tail in ("D", "A+D", "1"):
                case = {"stale_buffer": [role, killer, tail]}

                def bad(sig, detail, c=None):
                    acc.violation("C11:" + sig, detail + f" | role={role} killer={killer} tail={tail}", c or case)

                b = Bench(role, "active", next_in=14, next_out=4)
                try:
                    E = b.E
                    kf = build_frame(b, "0", killer, E, 1)
                    tails = {"D": [ref_msg("D", b.peer, b.me, E, [(11, "stale")])],
                             "A+D": [ref_msg("A", b.peer, b.me, E, [(98, 0), (108, 30)]), ref_msg("D", b.peer, b.me, E + 1, [(11, "stale")])],
                             "1": [ref_msg("1", b.peer, b.me, E, [(112, "STALE")])]}[tail]
                    b.mark()
                    b.link.readers[b.side].feed(kf + b"".join(tails))
                    b.w.idle()
                    if not b.disconnected():
                        bad("not-disconnected/" + killer, f"endpoint is {b.ep.connection_state.name}")
                        continue
                    s0 = snapshot(b)
                    b.w.advance(1.01)
                    if role == "acceptor":
                        b.link = b.w.attach_server_only()
                    else:
                        b.ep.auto_logon = False
                        b.w.connect_client()
                        b.link = b.w.link
                    b.reader, b.writer = b.link.readers[b.side], b.link.writers[b.side]
                    b.w.idle()
                    ev0 = len(b.ep.events)
                    b.link.readers[b.side].feed(b"\n")  # the new peer has said nothing that is a frame
                    b.w.idle()
                    b.w.advance(2.0)
                    s1 = snapshot(b)
                    evs = [e[0] for e in b.ep.events[ev0:]]
                    wr = [ref_get(ref_parse_(x), 35) for _, x in b.link.writers[b.side].written]
                    if s1["msgs"] != s0["msgs"]:
                        bad("stale-buffer/delivered-on-next-connection", f"on_message called on the new connection for a frame received on the old one")
                    if "logon" in evs:
                        bad("stale-buffer/on_logon-on-next-connection", f"callbacks {evs} although the new peer sent no Logon")
                    if s1["E"] != s0["E"]:
                        bad("stale-buffer/inbound-counter-advanced", f"next_num_in {s0['E']} -> {s1['E']} on the new connection before any frame arrived on it")
                    if [m for m in wr if m not in ("5",)]:
                        bad("stale-buffer/acted-upon", f"the endpoint wrote {wr} on the new connection before any frame arrived on it")
                    acc.case(("stale", role, killer, tail), cls=["stale-buffer", f"role={role}"])
                finally:
                    b.close()


def product(acc, state):
    uid = 0
    for cls in CLASSES:
        for defect in DEFECTS:
            uid += 1
            one_case(acc, state, cls, defect, uid=uid)


def disconnected_states(acc):
    """Send attempts in the three disconnected states."""
    from asyncfix.journaler import Journaler
    from vlib.simnet import World

    for kind in ("never-connected", "logged-out", "broken"):
        for role in ("acceptor", "initiator"):
            case = {"disconnected": kind, "role": role}

            def bad(sig, detail, c=None):
                acc.violation("C11:" + sig, detail + f" | {kind} {role}", c or case)

            if kind == "never-connected":
                w = World()
                ep = w.make_client(journal=Journaler()) if role == "initiator" else w.make_server(journal=Journaler(), start=False)
                b = Bench.__new__(Bench)
                b.role, b.side, b.me, b.peer, b.w, b.ep = role, ("c" if role == "initiator" else "s"), "X", "Y", w, ep

                class _L:
                    writers = {"c": type("W", (), {"written": []})(), "s": type("W", (), {"written": []})()}
                    readers = {}
                b.link = _L()
                exp = ConnectionState.DISCONNECTED_NOCONN_TODAY
            else:
                b = Bench(role, "active")
                if kind == "logged-out":
                    b.feed(b.frame("5", b.E, [(58, "bye")]))
                    exp = ConnectionState.DISCONNECTED_WCONN_TODAY
                else:
                    b.link.break_("eof")
                    b.w.idle()
                    exp = ConnectionState.DISCONNECTED_BROKEN_CONN
            try:
                if b.ep.connection_state != exp:
                    bad(f"setup/{kind}", f"state is {b.ep.connection_state.name}, expected {exp.name}")
                    continue
                if kind != "never-connected" and b.ep.disconnects != 1:
                    bad(f"disconnect-reported-{b.ep.disconnects}-times/{kind}", "on_disconnect count")
                try_sends(acc, b, kind, case, bad)
                acc.case(("disc", kind, role), cls=[f"state={exp.name}"])
                if kind != "never-connected":
                    after_disconnect(acc, b, [ref_msg("D", b.peer, b.me, b.E, [(11, "late")]), b"garbage", "EOF"], case, bad)
            finally:
                b.w.close()


# ------------------------------------------------------------------ drawn follow-up input
def hyp_shard(acc, n, seed):
    piece = st.one_of(st.binary(max_size=40), st.just("EOF"), st.sampled_from(["V-D", "V-1", "V-A", "V-2", "V-4"]))
    strat = st.tuples(st.sampled_from(STATES), st.sampled_from(CLASSES), st.sampled_from([d for d in DEFECTS if d not in ("none", "seq-at", "seq-high") and not d.startswith("begin")]),
                      st.lists(piece, min_size=1, max_size=6))

    def one(x):
        state, cls, defect, extra = x
        role_me, role_peer = ("SRV", "CLI") if state.startswith("acc") else ("CLI", "SRV")
        real = []
        for i, e in enumerate(extra):
            if isinstance(e, str) and e.startswith("V-"):
                mt = e[2:]
                f = {"D": [(11, "z")], "1": [(112, "q")], "A": [(98, 0), (108, 30)], "2": [(7, 1), (16, 0)], "4": [(123, "Y"), (36, 50)]}[mt]
                real.append(ref_msg(mt, role_peer, role_me, 4 + i, f))
            else:
                real.append(e)
        one_case(acc, state, cls, defect, extra=real)

    run_given(strat, one, n, seed)


def EXHAUSTIVE(tier):
    return True


INTERLEAVED = [("I:logon",), ("I:logon", "I:logout"), ("A", "X:drop"), ("R:resend", "X:drop", "A"), ("R:resend", "X:logout", "A"), ("A", "H"),
               # the connection ends while the endpoint's own reply (Logon answer, ResendRequest for a gap, Heartbeat answer) waits in drain()
               ("R:logon", "X:drop"), ("R:logon", "X:logout"), ("R:gap", "X:drop"), ("R:gap", "X:logout"), ("R:testreq", "X:drop"),
               # ... and the frame that revealed the gap is itself a request the endpoint goes on to serve
               ("R:gaprr", "X:drop"), ("R:gaprr", "X:logout"), ("R:gaptr", "X:drop")]


def interleaved_one(acc, tasks, schedule):
    """The connection ends (EOF from the peer, reset while draining, disconnect() by the application) while other tasks are
    suspended in drain() or in an application hook: afterwards the endpoint is and stays disconnected, the disconnect was
    reported exactly once and nothing is written or called back behind it."""
    from checks import c14

    start = "connected" if ("R:logon" in tasks or any(t.startswith("I:") for t in tasks)) else "active"
    sch = c14.Sched(tasks, start)
    case = {"interleaved": list(tasks), "schedule": [list(c) for c in schedule]}
    try:
        if start == "active":
            sch.prefill()
        for c in schedule:
            if c not in sch.choices():
                break
            sch.apply(c)
        sch.finish()
        ep = sch.ep
        lost = sch.failed or sch.eof_fed or any(t.startswith("X:") for t in tasks if t not in sch.unstarted)
        evs = [(k, getattr(pl, "name", pl)) for k, pl, _t in ep.events]
        nd = sum(1 for k, _ in evs if k == "disconnect")
        if nd > 1:
            acc.violation("C11:interleaved/disconnect-reported-twice", f"on_disconnect called {nd} times | tasks={tasks} schedule={schedule}", case)
        if nd >= 1:
            i = max(j for j, e in enumerate(evs) if e[0] == "disconnect")
            after = [e for e in evs[i + 1:] if e[0] in ("msg", "logon", "state")]
            if after:
                acc.violation("C11:interleaved/callbacks-after-disconnect", f"callbacks after on_disconnect: {after} | tasks={tasks} schedule={schedule}", case)
            if ep.connection_state.name not in ("DISCONNECTED_BROKEN_CONN", "DISCONNECTED_WCONN_TODAY", "DISCONNECTED_NOCONN_TODAY"):
                acc.violation("C11:interleaved/not-disconnected-after-disconnect", f"on_disconnect was reported, yet the endpoint ends in {ep.connection_state.name} | tasks={tasks} schedule={schedule}", case)
        acc.case(("interleaved", tuple(tasks), tuple(schedule)) if lost else None, cls=["interleaved", "interleaved/connection-lost" if lost else "interleaved/connection-kept"])
    finally:
        sch.close()


def interleaved(acc, depth):
    from checks import c14

    for tasks in INTERLEAVED:
        def rec(schedule):
            start = "connected" if ("R:logon" in tasks or any(t.startswith("I:") for t in tasks)) else "active"
            sch = c14.Sched(tasks, start)
            try:
                if start == "active":
                    sch.prefill()
                ok = True
                for c in schedule:
                    if c not in sch.choices():
                        ok = False
                        break
                    sch.apply(c)
                ch = sch.choices() if ok else []
            finally:
                sch.close()
            if not ok:
                return
            interleaved_one(acc, tasks, schedule)
            if len(schedule) < depth:
                for c in ch:
                    if c[0] == "cancel":
                        continue
                    rec(schedule + [c])
        rec([])


def plan(tier, seed):
    jobs = [("product", {"state": s}) for s in STATES] + [("disconnected_states", {})] + [("logon_body", {})] + [("stale_buffer", {})] + [("interleaved", {"depth": 5 if tier == "quick" else 7})]
    n, k = (150, 4) if tier == "quick" else (6000, 8)
    jobs += [("hyp_shard", {"n": n, "seed": derive_seed(seed, PROPERTY, i)}) for i in range(k)]
    return jobs


def replay(acc, case):
    if "interleaved" in case:
        interleaved_one(acc, tuple(case["interleaved"]), [tuple(c) for c in case["schedule"]])
        return
    if "disconnected" in case:
        disconnected_states(acc)
        return
    if "stale_buffer" in case:
        stale_buffer(acc)
        return
    if "logon_body" in case:
        logon_body_case(acc, case["state"], case["logon_body"], case["cls"], case["at"])
        return
    one_case(acc, case["state"], case["cls"], case["defect"], extra=[e if not isinstance(e, str) or e == "EOF" else e for e in case.get("extra", [])])
