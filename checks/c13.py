"""C13 - the journal is a faithful per-session, per-direction message store.

Hypothesis-generated operation histories interpreted against an in-memory
Journaler and a dict reference model, compared after every operation.
"""
import sys

from hypothesis import strategies as st

from asyncfix.errors import DuplicateSeqNoError
from asyncfix.journaler import Journaler
from asyncfix.message import MessageDirection
from vlib.hyp import ddmin, run_given
from vlib.runner import derive_seed

PROPERTY = "C13"
LEVEL = "exploration"
RULE = (
    "Hypothesis lists of journal operations (create_or_load over a CompID pool with mirror "
    "pairs / equal ids / quoting characters, persist_msg with sparse, descending, repeated and "
    "huge numbers and arbitrary payload bytes, set_seq_num, close + reopen (such histories run on a file), recover_messages with empty / "
    "inverted / single / open-ended ranges with bounds as int, decimal str or mixed (the documented int | str), recover_msg, get_all_msgs under every filter, "
    "sessions()) run on an in-memory Journaler and a dict model, full comparison after every "
    "operation. Non-trivial = history using >=2 sessions, both directions and a set_seq_num "
    "after a store; distinct by the operation list."
)
ASSUMPTIONS = [
    "set_seq_num is given a session object whose live counters equal the stored ones (as a connection keeps them); numbers are positive and, with their successor, <= 2^63-1 (sqlite INTEGER)",
    "message bytes carry a parsable 34=<n> header field (bytes without one are FREE)",
]

IDS = ["A", "B", "A B", "it's", "%", '"q"', "A%"]
IN, OUT = MessageDirection.INBOUND, MessageDirection.OUTBOUND
DIRS = {"in": IN, "out": OUT}
BIG = 2**63 - 2  # so that the next number (n+1) still fits sqlite INTEGER

num = st.one_of(
    st.integers(1, 12),
    st.integers(1, 12),
    st.sampled_from([1, 2, 100, 1000, 2**31 - 1, 2**31, 2**32 + 5, BIG - 1, BIG]),
    st.integers(1, BIG),
)
small_num = st.one_of(st.integers(1, 14), st.sampled_from([1, 2, 100, 2**31, BIG]))
payload = st.one_of(
    st.binary(max_size=24),
    st.sampled_from([b"", b"\x0134=7\x01", b"\x00\x01\xff", b"58=x\x0134=999\x0110=000\x01", "é€".encode()]),
)
sess = st.sampled_from([0, 0, 1, 1, 2, 3])  # index into the per-history session table (biased to the first two)
dirn = st.sampled_from(["in", "out"])
bound = st.one_of(st.integers(0, 14), st.sampled_from([0, -1, 100, 2**31, BIG, sys.maxsize]))

op = st.one_of(
    st.tuples(st.just("create"), st.sampled_from(IDS), st.sampled_from(IDS)),
    st.tuples(st.just("persist"), sess, dirn, num, payload),
    st.tuples(st.just("persist"), sess, dirn, num, payload),
    st.tuples(st.just("persist"), sess, dirn, num, payload),
    st.tuples(st.just("set"), sess, st.one_of(st.none(), small_num), st.one_of(st.none(), small_num)),
    st.tuples(st.just("range"), sess, dirn, bound, bound),
    st.tuples(st.just("range"), sess, dirn, st.one_of(st.integers(0, 12), st.sampled_from([2, 9, 99])), st.one_of(st.integers(8, 14), st.sampled_from([10, 100, 101, 2**31])),
              st.sampled_from(["ss", "ss", "is", "si"])),
    st.tuples(st.just("range"), sess, dirn, st.integers(0, 4), st.sampled_from([8, 14, 100, 2**31, sys.maxsize])),
    st.tuples(st.just("set"), sess, st.one_of(st.none(), st.integers(1, 8)), st.one_of(st.none(), st.integers(1, 8))),
    st.tuples(st.just("one"), sess, dirn, num),
    st.tuples(st.just("all"), st.lists(sess, max_size=3), st.sampled_from([None, "in", "out"]), st.booleans()),
    st.tuples(st.just("sessions")),
    st.tuples(st.just("reopen")),
)
# every history starts with two mirror-image sessions so that isolation is exercised
history = st.tuples(st.booleans(), st.lists(op, min_size=1, max_size=30)).map(lambda x: ([("create", "A", "B"), ("create", "B", "A")] if x[0] else []) + x[1])


def frame(n, pl):
    return b"8=FIX.4.4\x019=00\x0135=D\x0134=" + str(n).encode() + b"\x01" + pl


class Model:
    def __init__(self):
        self.sessions = {}  # (t, s) -> dict(key=, in=, out=)
        self.rows = []  # [key, dir, n, bytes] insertion order

    def rows_of(self, key, d):
        return sorted((r[2], r[3]) for r in self.rows if r[0] == key and r[1] == d)


def run_history(ops, record):
    """record(sig, detail) is called for each violated clause; returns class set."""
    # a history with a "reopen" runs on a file: the store must be faithful across close / reopen too
    path = None
    if any(o[0] == "reopen" for o in ops):
        import os
        import tempfile

        fd, path = tempfile.mkstemp(prefix="verif_c13_", suffix=".db", dir="/dev/shm" if os.path.isdir("/dev/shm") else None)
        os.close(fd)
        os.unlink(path)
    j = Journaler(path)
    m = Model()
    try:
        return _run_history(ops, record, j, m, path)
    finally:
        if path:
            import os

            for suf in ("", "-journal", "-wal", "-shm"):
                try:
                    os.unlink(path + suf)
                except FileNotFoundError:
                    pass


class _Closed:
    def __del__(self):
        pass


def _run_history(ops, record, j, m, path):
    table = []  # FIXSession objects (freshly loaded), index = sess
    classes = set()
    stores = 0
    used_dirs = set()

    def fail(sig, detail):
        record("C13:" + sig, detail)
        return False

    def load_paths_ok():
        try:
            listed = j.sessions()
        except BaseException as e:  # noqa
            return fail("sessions/exception", f"sessions() raised {type(e).__name__}: {e}")
        if set(listed.keys()) != set(m.sessions.keys()):
            return fail("sessions/keys", f"sessions() keys {sorted(listed)} != model {sorted(m.sessions)}")
        ok = True
        for (t, s), ms in m.sessions.items():
            lo = listed[(t, s)]
            cl = j.create_or_load(t, s)
            if cl.key != ms["key"] or lo.key != ms["key"]:
                ok = fail("load/key", f"session ({t!r},{s!r}) key {cl.key}/{lo.key} != {ms['key']}")
            if (cl.target_comp_id, cl.sender_comp_id) != (t, s):
                ok = fail("load/compids", f"create_or_load returned {cl!r} for ({t!r},{s!r})")
            if cl.next_num_out != ms["out"]:
                ok = fail("load/create_or_load-out", f"create_or_load next_num_out={cl.next_num_out} model={ms['out']} ({t!r},{s!r})")
            if cl.next_num_in != ms["in"]:
                ok = fail("load/create_or_load-in", f"create_or_load next_num_in={cl.next_num_in} model={ms['in']}")
            if lo.next_num_out != ms["out"]:
                ok = fail("load/sessions-out", f"sessions() next_num_out={lo.next_num_out} model={ms['out']} (create_or_load says {cl.next_num_out})")
            if lo.next_num_in != ms["in"]:
                ok = fail("load/sessions-in", f"sessions() next_num_in={lo.next_num_in} model={ms['in']} (create_or_load says {cl.next_num_in})")
        return ok

    def walk(res, key, d):
        """Content of a range result. A list is taken as it is; anything else (a lazy result) is walked the way the resend
        code walks it - element by element, with other reads of the same journal in between - and must still be what was
        stored when the query was made."""
        if isinstance(res, (list, tuple)):
            return list(res)
        out = []
        for x in res:
            out.append(x)
            if len(out) == 1:
                j.recover_msg(_S(key), d, 1)
                j.sessions() if hasattr(j, "sessions") else None
        classes_lazy.append(1)
        return out

    classes_lazy = []

    def full_ok():
        ok = load_paths_ok()
        got = j.get_all_msgs()
        exp = [(r[2], r[3], r[1].value, r[0]) for r in m.rows]
        if got != exp:
            ok = fail("content/get_all_msgs", f"get_all_msgs()={got!r} model={exp!r}")
        for ms in m.sessions.values():
            for d in (IN, OUT):
                g = walk(j.recover_messages(_S(ms["key"]), d, 0, sys.maxsize), ms["key"], d)
                e = [b for _, b in m.rows_of(ms["key"], d)]
                if g != e:
                    ok = fail("content/recover-all", f"recover_messages(all) session={ms['key']} dir={d.name}: {g!r} != {e!r}")
        return ok

    class _S:  # minimal session handle for read-only queries
        def __init__(self, key):
            self.key = key

    # two fixed mirror sessions first
    pre = [("create", "A", "B"), ("create", "B", "A")]
    for o in pre + list(ops):
        kind = o[0]
        try:
            if kind == "create":
                _, t, s = o
                ses = j.create_or_load(t, s)
                if (t, s) not in m.sessions:
                    key = ses.key
                    if any(v["key"] == key for v in m.sessions.values()):
                        fail("create/key-reused", f"new session ({t!r},{s!r}) got key {key} of another session")
                        return classes
                    m.sessions[(t, s)] = {"key": key, "in": 1, "out": 1}
                    table.append((t, s))
                    if (ses.next_num_in, ses.next_num_out) != (1, 1):
                        fail("create/initial-counters", f"new session counters {ses.next_num_in}/{ses.next_num_out}")
                        return classes
                classes.add("create")
            elif kind == "persist":
                _, si, dn, n, pl = o
                t, s = table[si % len(table)]
                ms = m.sessions[(t, s)]
                d = DIRS[dn]
                ses = j.create_or_load(t, s)
                b = frame(n, pl)
                dup = any(r[0] == ms["key"] and r[1] == d and r[2] == n for r in m.rows)
                try:
                    j.persist_msg(b, ses, d)
                    raised = None
                except DuplicateSeqNoError as e:
                    raised = e
                if dup:
                    classes.add("dup")
                    if raised is None:
                        fail("dup/accepted", f"storing number {n} twice did not raise (session {ms['key']} {dn})")
                        return classes
                else:
                    if raised is not None:
                        fail("store/spurious-duplicate", f"fresh number {n} raised {raised}")
                        return classes
                    m.rows.append([ms["key"], d, n, b])
                    ms[dn] = n + 1
                    stores += 1
                    used_dirs.add(dn)
                    if n > 2**31:
                        classes.add("huge-number")
            elif kind == "set":
                _, si, no, ni = o
                t, s = table[si % len(table)]
                ms = m.sessions[(t, s)]
                ses = j.create_or_load(t, s)
                j.set_seq_num(ses, next_num_out=no, next_num_in=ni)
                if no is not None:
                    ms["out"] = no
                if ni is not None:
                    ms["in"] = ni
                m.rows = [
                    r for r in m.rows
                    if not (r[0] == ms["key"] and r[2] >= (ms["out"] if r[1] == OUT else ms["in"]))
                ]
                if (ses.next_num_out, ses.next_num_in) != (ms["out"], ms["in"]):
                    fail("set/live-counters", f"session object after set_seq_num: {ses!r} model={ms}")
                    return classes
                if stores:
                    classes.add("set-after-store")
            elif kind == "range":
                _, si, dn, lo, hi = o[:5]
                spell = o[5] if len(o) > 5 else "ii"  # bounds are documented as int | str (decimal strings, as read from a ResendRequest)
                t, s = table[si % len(table)]
                ms = m.sessions[(t, s)]
                d = DIRS[dn]
                got = j.recover_messages(_S(ms["key"]), d, str(lo) if spell[0] == "s" else lo, str(hi) if spell[1] == "s" else hi)
                if not isinstance(got, list):
                    got = walk(got, ms["key"], d)
                    classes.add("lazy-result-walked")
                if spell != "ii":
                    classes.add("range-str-bounds")
                if isinstance(got, list) and got and (len(o) + lo + hi) % 3 == 0:
                    # the caller edits the list it was handed (filters it in place) and asks again: a stored message is
                    # returned by EVERY range query that includes its number
                    keep = list(got)
                    got.clear()
                    again = j.recover_messages(_S(ms["key"]), d, str(lo) if spell[0] == "s" else lo, str(hi) if spell[1] == "s" else hi)
                    again = walk(again, ms["key"], d)
                    classes.add("result-edited-then-requeried")
                    if again != keep:
                        fail("range/result-after-caller-edit", f"recover_messages({lo},{hi}) after the caller cleared the previous result: got {again!r} expected {keep!r}")
                        return classes
                    got = keep
                exp = [b for n, b in m.rows_of(ms["key"], d) if lo <= n <= hi]
                if got != exp:
                    fail("range/result", f"recover_messages({lo},{hi}) session={ms['key']} {dn}: got {got!r} expected {exp!r}")
                    return classes
                classes.add("range-empty" if not exp else "range-hit")
            elif kind == "one":
                _, si, dn, n = o
                t, s = table[si % len(table)]
                ms = m.sessions[(t, s)]
                d = DIRS[dn]
                got = j.recover_msg(_S(ms["key"]), d, n)
                exp = [b for k, b in m.rows_of(ms["key"], d) if k == n]
                if got != (exp[0] if exp else None):
                    fail("range/recover_msg", f"recover_msg({n}) got {got!r} expected {exp!r}")
                    return classes
            elif kind == "all":
                _, sl, dn, as_obj = o
                keys = [m.sessions[table[i % len(table)]]["key"] for i in sl]
                arg = [(_S(k) if False else k) for k in keys]
                if as_obj:
                    arg = [j.create_or_load(*table[i % len(table)]) for i in sl]
                d = DIRS[dn] if dn else None
                got = j.get_all_msgs(sessions=arg if sl else None, direction=d)
                exp = [
                    (r[2], r[3], r[1].value, r[0]) for r in m.rows
                    if (not keys or r[0] in keys) and (d is None or r[1] == d)
                ]
                if got != exp:
                    fail("filter/get_all_msgs", f"get_all_msgs(sessions={keys}, direction={dn}) got {got!r} expected {exp!r}")
                    return classes
            elif kind == "sessions":
                pass
            elif kind == "reopen":
                j.cursor.close()
                j.conn.close()  # no explicit commit: every completed operation must already be durable
                j.__class__ = _Closed
                j = Journaler(path)
                classes.add("reopen")
        except BaseException as e:  # noqa
            fail(f"exception/{kind}/{type(e).__name__}", f"op {o!r} raised {type(e).__name__}: {e}")
            return classes
        if not full_ok():
            return classes
    if len(m.sessions) >= 2 and used_dirs == {"in", "out"} and "set-after-store" in classes:
        classes.add("NONTRIVIAL")
    return classes


def _judge(acc, ops, shrink=True):
    found = {}
    classes = run_history(ops, lambda sig, det: found.setdefault(sig, det))
    for sig, det in found.items():
        case = list(ops)
        if shrink and sig not in acc.violations:
            def still(c, sig=sig):
                f = {}
                run_history(c, lambda s, d: f.setdefault(s, d))
                return sig in f
            case = ddmin(case, still)
            f2 = {}
            run_history(case, lambda s, d: f2.setdefault(s, d))
            det = f2.get(sig, det)
        acc.violation(sig, det, {"ops": [list(o) for o in case]})
    nt = "NONTRIVIAL" in classes
    acc.case(repr(ops) if nt else None, cls=[c for c in classes if c != "NONTRIVIAL"],
             sample={"ops": [list(o) for o in ops]} if nt and len(ops) < 14 else None)


def hyp_shard(acc, n, seed):
    run_given(history, lambda ops: _judge(acc, ops), n, seed)


def bulk(acc, rows):
    """A long-lived journal: thousands of rows in two sessions, holes in the numbering, payloads that contain trailer look-alikes;
    range queries from below the first stored number, across the holes, across digit-count boundaries, int and str bounds."""
    j = Journaler()
    sa, sb = j.create_or_load("A", "B"), j.create_or_load("B", "A")
    model = {}
    case = {"bulk": rows}

    def bad(sig, detail):
        acc.violation("C13:bulk/" + sig, detail, case)

    pay = [b"58=x\x01", b"96=ab\x0110=123\x01zz\x01", b"58=" + b"y" * 300 + b"\x01", b""]
    for ses, tag in ((sa, "a"), (sb, "b")):
        for d in (IN, OUT):
            n = 5
            for k in range(rows):
                if k in (rows // 3, rows // 2):
                    n += 200 if d is OUT else 7  # a hole
                fr = frame(n, pay[k % 4] + b"10=0%02d\x01" % (k % 100))
                j.persist_msg(fr, ses, d)
                model[(tag, d, n)] = fr
                n += 1
    hi = max(k[2] for k in model)
    for ses, tag in ((sa, "a"), (sb, "b")):
        for d in (IN, OUT):
            for lo, up in ((1, hi + 10), (0, sys.maxsize), (5, 5), (9, 10), (99, 100), (999, 1000), (998, 1003), (rows // 3, rows // 3 + 300), (hi - 3, hi + 3), (7, 1200), (1001, 1001)):
                for spell in ("ii", "ss"):
                    a_, b_ = (str(lo), str(up)) if spell == "ss" else (lo, up)
                    try:
                        got = list(j.recover_messages(ses, d, a_, b_))
                    except Exception as e:
                        bad(f"range-raises/{type(e).__name__}", f"recover_messages({a_!r},{b_!r}) raised {type(e).__name__}: {e}")
                        continue
                    exp = [model[k] for k in sorted(k for k in model if k[0] == tag and k[1] == d and lo <= k[2] <= up)]
                    if got != exp:
                        i = next((x for x in range(min(len(got), len(exp))) if got[x] != exp[x]), min(len(got), len(exp)))
                        bad("range/result", f"recover_messages({a_!r},{b_!r}) {tag}/{d.name}: {len(got)} messages, expected {len(exp)}; first difference at position {i}: "
                            f"{got[i:i + 1]!r:.120} vs {exp[i:i + 1]!r:.120}")
                    acc.case(("bulk", tag, d.name, lo, up, spell), cls=["bulk-journal"])
            n_exp = max(k[2] for k in model if k[0] == tag and k[1] == d) + 1
            ses2 = j.create_or_load(ses.target_comp_id, ses.sender_comp_id)
            got_n = ses2.next_num_in if d is IN else ses2.next_num_out
            if got_n != n_exp:
                bad("counter", f"{tag}/{d.name}: next number {got_n}, expected {n_exp}")


def plan(tier, seed):
    shards, n = (10, 500) if tier == "quick" else (16, 6000)
    return [("hyp_shard", {"n": n, "seed": derive_seed(seed, PROPERTY, i)}) for i in range(shards)] + [("bulk", {"rows": 1300 if tier == "quick" else 6000})]


def _tup(o):
    o = list(o)
    if o[0] == "all":
        o[1] = list(o[1])
    return tuple(o)


def replay(acc, case):
    _judge(acc, [_tup(o) for o in case["ops"]], shrink=False)
