"""C15 - schema validation accepts exactly the messages the FIX dictionary allows."""
import copy
import os
import random
import warnings
import xml.etree.ElementTree as ET

from hypothesis import strategies as st

from asyncfix.errors import FIXMessageError
from asyncfix.message import FIXContainer, FIXMessage
from asyncfix.protocol.schema import FIXSchema, SchemaField, SchemaGroup
from vlib import lexical as L
from vlib.dictref import Dictionary
from vlib.hyp import run_given
from vlib.runner import SRC, derive_seed

PROPERTY = "C15"
LEVEL = "exploration"
RULE = (
    "For both dictionaries (tests/FIX44.xml: 93 message types, tests/TT-FIX44.xml) an independent XML reader "
    "(vlib/dictref.py) drives: (1) a structural differential of every message's member lists, order, required "
    "flags and nested groups as parsed by FIXSchema; (2) valid instances of EVERY message type (all required "
    "members, random optional ones, must-accept or enumerated values, groups with 1-2 items starting with the "
    "first member, members in dictionary order, nested to the dictionary's depth; body-only, with the required "
    "header/trailer fields, and with the header's repeating group as well) which must validate; (3) single-fault mutants M1..M13 (missing required field / group, "
    "unknown tag, tag not allowed, non-enumerated value, must-reject value, field as group, group as field, "
    "members swapped, foreign member, required member missing in an item, empty value, member of a header repeating group as a plain body tag; at top level and inside "
    "(nested) items), a seed-independent sweep of message type x applicable class plus Hypothesis-drawn "
    "(type, population seed, class, position): each must raise FIXMessageError and nothing else; (4) the "
    "<components> declaration order permuted (reversed, sorted, random): same outcome for every corpus message "
    "and same parsed structure. Non-trivial = instance or mutant involving a group; distinct by (dictionary, "
    "type, class, path, population seed)."
)
ASSUMPTIONS = [
    "vlib/dictref.py (components expanded in place, members keep their own required flag) is the reading of the dictionary",
    "FREE: values of optional header fields, optional trailer fields (SignatureLength/Signature), zero-item groups, items whose first member is absent, "
    "multiple-value strings with several enumerators, DATA/LENGTH fields and datatypes the library only warns about",
]
DICTS = {"FIX44": "tests/FIX44.xml", "TT": "tests/TT-FIX44.xml"}
CLASSES = ["M1", "M2", "M3", "M4", "M5", "M6", "M7", "M8", "M9", "M10", "M11", "M12", "M13"]
_cache = {}


def load(dname, perm=None):
    key = (dname, perm)
    if key in _cache:
        return _cache[key]
    path = os.path.join(SRC, DICTS[dname])
    if perm is None:
        ref = Dictionary(path)
        with warnings.catch_warnings():
            warnings.simplefilter("ignore")
            sch = FIXSchema(path)
    else:
        root = ET.parse(path).getroot()
        comps = root.find("components")
        kids = list(comps)
        if perm == "reversed":
            kids.reverse()
        elif perm == "sorted":
            kids.sort(key=lambda e: e.attrib["name"])
        elif perm == "sorted-desc":
            kids.sort(key=lambda e: e.attrib["name"], reverse=True)
        else:
            random.Random(perm).shuffle(kids)
        for k in list(comps):
            comps.remove(k)
        for k in kids:
            comps.append(k)
        ref = Dictionary(root)
        with warnings.catch_warnings():
            warnings.simplefilter("ignore")
            sch = FIXSchema(ET.ElementTree(root))
    _cache[key] = (ref, sch)
    return ref, sch


# ------------------------------------------------------------------ instance population
def pick_value(rng, f):
    if f.enums:
        return rng.choice(f.enums)
    t = f.ftype.upper()
    if t == "NUMINGROUP":
        return "1"
    vals = L.must_accept_samples(t)
    if f.tag == "16":
        vals = vals + ["0"]
    return rng.choice(vals)


def populate(rng, members, p_opt, depth=0):
    """-> list of ("f", tag, value) | ("g", tag, [items])  following dictionary order."""
    out = []
    for i, m in enumerate(members):
        need = m[2] or (depth > 0 and i == 0)
        if not need and rng.random() >= p_opt:
            continue
        if m[0] == "field":
            out.append(("f", m[1].tag, pick_value(rng, m[1])))
        else:
            n = rng.choice([1, 1, 2])
            out.append(("g", m[1].tag, [populate(rng, m[3], p_opt * 0.7, depth + 1) for _ in range(n)]))
    return out


def header_entries(ref, msgtype, groups=False):
    vals = {"8": "FIX.4.4", "9": "100", "35": msgtype, "49": "SENDER", "56": "TARGET", "34": "7", "52": "20230921-14:00:00.123"}
    out = []
    rng = random.Random(1)
    for m in ref.header:
        if m[0] == "field" and m[2]:
            out.append(("f", m[1].tag, vals.get(m[1].tag) or pick_value(rng, m[1])))
        elif m[0] == "group" and groups:
            # a repeating group of the <header> (FIX44.xml: NoHops) with two fully populated items
            items = [[("f", m2[1].tag, pick_value(rng, m2[1])) for m2 in m[3] if m2[0] == "field"] for _ in range(2)]
            out.append(("g", m[1].tag, items))
    return out


def build(msgtype, entries):
    msg = FIXMessage(msgtype)
    _fill(msg, entries)
    return msg


def _fill(c, entries):
    for e in entries:
        if e[0] == "f":
            c.set(e[1], e[2])
        elif e[0] == "g":
            items = []
            for it in e[2]:
                ic = FIXContainer()
                _fill(ic, it)
                items.append(ic)
            c.set_group(e[1], items)
        elif e[0] == "raw-group-as-field":
            c.set(e[1], e[2])


# ------------------------------------------------------------------ mutation
def member_index(members):
    return {m[1].tag: m for m in members}


def sites(entries, members, path=()):
    """Yields (path, entries_list, members) for the top level and for every (nested) item."""
    yield path, entries, members
    mi = member_index(members)
    for k, e in enumerate(entries):
        if e[0] == "g" and e[1] in mi and mi[e[1]][0] == "group":
            for j, it in enumerate(e[2]):
                yield from sites(it, mi[e[1]][3], path + ((k, j),))


def tree_tags(members):
    out = set()
    for m in members:
        out.add(m[1].tag)
        if m[0] == "group":
            out |= tree_tags(m[3])
    return out


MUST_REJECT = {
    "INT": ["1.5", "abc", "1 ", "+1"], "SEQNUM": ["-1", "abc", "1.0"], "NUMINGROUP": ["abc", "-1"], "DAYOFMONTH": ["32", "0", "ab"],
    "BOOLEAN": ["X", "YN"], "CHAR": ["ab", "\x01"], "STRING": ["a\x01b"], "MULTIPLEVALUESTRING": ["a\x01b"], "MULTIPLESTRINGVALUE": ["a\x01b"],
    "COUNTRY": ["USA", "U\x01"], "CURRENCY": ["EURO", "E\x01"], "EXCHANGE": ["XNYSE"], "LOCALMKTDATE": ["2023-09-21", "20231321", "2023092"],
    "UTCDATEONLY": ["20231321", "abc"], "UTCTIMEONLY": ["25:00:00", "1:2:3"], "UTCTIMESTAMP": ["20230921", "20230921-25:00:00", "2023115-1:2:3"],
    "MONTHYEAR": ["202313", "202309w6", "2023"],
}
for _t in L.FLOATS:
    MUST_REJECT[_t] = ["abc", "1e5", "1,5", "+1.5"]
for _t, _vs in MUST_REJECT.items():
    for _v in _vs:
        assert L.classify(_t, _v) == "R", (_t, _v)


def mutate(rng, ref, mdef, entries, klass, pick):
    """Returns (mutated entries, description) or None when the class has no applicable position.
    `pick` selects among applicable positions (deterministically)."""
    ent = copy.deepcopy(entries)
    all_sites = list(sites(ent, mdef.members))
    hdr = ref.header_tags()

    def choose(cands):
        return cands[pick % len(cands)] if cands else None

    def locate(path):
        cur, mem = ent, mdef.members
        for (k, j) in path:
            mi = member_index(mem)
            mem = mi[cur[k][1]][3]
            cur = cur[k][2][j]
        return cur, mem

    if klass in ("M1", "M2"):
        kind = "field" if klass == "M1" else "group"
        c = [k for k, e in enumerate(ent) if member_index(mdef.members)[e[1]][2] and member_index(mdef.members)[e[1]][0] == kind]
        k = choose(c)
        if k is None:
            return None
        tag = ent[k][1]
        del ent[k]
        return ent, f"{klass}: required {kind} {tag} removed", ()
    if klass == "M3":
        path, _, _ = choose(all_sites[:1])
        tag = "29999"
        assert tag not in ref.by_tag
        ent.insert(rng.randrange(len(ent) + 1), ("f", tag, "x"))
        return ent, "M3: tag 29999 unknown to the dictionary added", ()
    if klass == "M4":
        used = tree_tags(mdef.members) | hdr | {"10"}
        cands = sorted((t for t, f in ref.by_tag.items() if t not in used and not f.enums and f.ftype.upper() == "STRING"), key=int)
        t = choose(cands)
        if t is None:
            return None
        ent.append(("f", t, "x"))
        return ent, f"M4: dictionary tag {t} not allowed in {mdef.name} added", ()
    if klass == "M13":
        # a member of a repeating group of the <header> (FIX44.xml: NoHops -> 628/629/630) as a plain top-level tag of the
        # body: known to the dictionary, part of no message and not a header field either
        used = tree_tags(mdef.members)
        cands = [(m2[1].tag, m2[1]) for m in ref.header if m[0] == "group" for m2 in m[3] if m2[0] == "field" and m2[1].tag not in used and not m2[1].enums]
        c = choose(cands)
        if c is None:
            return None
        t, f = c
        val = {"STRING": "x", "UTCTIMESTAMP": "20230921-10:11:12", "SEQNUM": "1", "INT": "1"}.get(f.ftype.upper())
        if val is None:
            return None
        ent.insert(rng.randrange(len(ent) + 1), ("f", t, val))
        return ent, f"M13: member {t} of a header repeating group as a plain tag of {mdef.name}", ()
    # classes that apply at any site
    cands = []
    for path, lst, mem in all_sites:
        mi = member_index(mem)
        for k, e in enumerate(lst):
            m = mi.get(e[1])
            if m is None:
                continue
            f = m[1]
            if klass == "M5" and e[0] == "f" and f.enums and f.ftype.upper() not in ("MULTIPLEVALUESTRING", "MULTIPLESTRINGVALUE"):
                cands.append((path, k))
            elif klass == "M6" and e[0] == "f" and not f.enums and f.ftype.upper() in MUST_REJECT:
                cands.append((path, k))
            elif klass == "M7" and e[0] == "f":
                cands.append((path, k))
            elif klass == "M8" and e[0] == "g":
                cands.append((path, k))
            elif klass == "M12" and e[0] == "f":
                cands.append((path, k))
            elif klass == "M11" and path and m[2] and (k > 0 or len(lst) == 1 or True):
                cands.append((path, k))
        if klass == "M9" and path and len(lst) >= 2:
            for k in range(len(lst) - 1):
                cands.append((path, k))
        if klass == "M10" and path:
            cands.append((path, 0))
    # prefer nested sites half of the time
    nested = [c for c in cands if c[0]]
    if nested and pick % 2:
        cands = nested
    c = choose(cands)
    if c is None:
        return None
    path, k = c
    lst, mem = locate(path)
    mi = member_index(mem)
    where = "top" if not path else f"item@depth{len(path)}"
    if klass == "M5":
        f = mi[lst[k][1]][1]
        bad = "~~"
        assert bad not in f.enums
        lst[k] = ("f", f.tag, bad)
        return ent, f"M5: field {f.tag} given '~~', not one of its enumerators ({where})", path
    if klass == "M6":
        f = mi[lst[k][1]][1]
        bad = MUST_REJECT[f.ftype.upper()][pick % len(MUST_REJECT[f.ftype.upper()])]
        lst[k] = ("f", f.tag, bad)
        return ent, f"M6: {f.ftype} field {f.tag} given {bad!r} ({where})", path
    if klass == "M7":
        tag = lst[k][1]
        lst[k] = ("g", tag, [[("f", tag, "1")]])
        return ent, f"M7: plain field {tag} given as a group ({where})", path
    if klass == "M8":
        tag = lst[k][1]
        lst[k] = ("f", tag, "1")
        return ent, f"M8: group {tag} given as a plain value ({where})", path
    if klass == "M12":
        tag = lst[k][1]
        lst[k] = ("f", tag, "")
        return ent, f"M12: field {tag} given the empty string ({where})", path
    if klass == "M11":
        tag = lst[k][1]
        del lst[k]
        return ent, f"M11: required member {tag} removed from an item ({where})", path
    if klass == "M9":
        lst[k], lst[k + 1] = lst[k + 1], lst[k]
        return ent, f"M9: members {lst[k + 1][1]} and {lst[k][1]} swapped in an item ({where})", path
    if klass == "M10":
        own = {m[1].tag for m in mem}
        foreign = sorted((t for t, f in ref.by_tag.items() if t not in own and t not in hdr and not f.enums and f.ftype.upper() == "STRING"), key=int)
        t = foreign[pick % len(foreign)]
        lst.insert(rng.randrange(1, len(lst) + 1), ("f", t, "x"))
        return ent, f"M10: foreign dictionary tag {t} inside an item ({where})", path
    return None


# ------------------------------------------------------------------ judging
def validate_outcome(sch, msg):
    try:
        with warnings.catch_warnings():
            warnings.simplefilter("ignore")
            r = sch.validate(msg)
        return "ok" if r is True else f"returned {r!r}"
    except FIXMessageError as e:
        return "rejected"
    except BaseException as e:  # noqa
        return f"raised {type(e).__name__}"


def has_group(entries):
    return any(e[0] == "g" for e in entries)


def one_case(acc, dname, msgtype, pseed, klass, pick, with_header, perm=None, expect_same=None):
    ref, sch = load(dname, perm)
    mdef = ref.messages[msgtype]
    rng = random.Random(pseed)
    p_opt = [0.0, 0.15, 0.5][pseed % 3]
    entries = populate(rng, mdef.members, p_opt)
    mt_field = ref.by_tag.get("35")
    if with_header and mt_field is not None and mt_field.enums and msgtype not in mt_field.enums:
        # the dictionary defines the message but does not list its type among MsgType's enumerators:
        # a header "according to the dictionary" cannot be built for it -> body-only, counted
        acc.exclude(f"header for msgtype outside MsgType enumeration ({dname})")
        with_header = False
    case = {"dict": dname, "msgtype": msgtype, "pseed": pseed, "klass": klass, "pick": pick, "header": with_header, "perm": perm}
    nested = False
    desc = "valid"
    if klass != "valid":
        r = mutate(rng, ref, mdef, entries, klass, pick)
        if r is None:
            acc.klass(f"n/a:{klass}")
            return None
        entries, desc, path = r
        nested = len(path) > 0
    full = (header_entries(ref, msgtype, groups=(with_header == "groups")) if with_header else []) + entries + ([("f", "10", ("123", "000", "007", "255")[pseed % 4])] if with_header else [])
    try:
        msg = build(msgtype, full)
    except Exception as e:
        raise RuntimeError(f"instance not buildable: {e!r} {case} {desc}")
    got = validate_outcome(sch, msg)
    where = "nested" if nested else "top"
    if klass == "valid":
        if got != "ok":
            detail = ""
            try:
                sch.validate(msg)
            except BaseException as e:  # noqa
                detail = f"{type(e).__name__}: {str(e)[:300]}"
            acc.violation(f"C15:valid-rejected/{dname}", f"{dname} {mdef.name}({msgtype}) valid instance -> {got}: {detail}", case)
    else:
        if got == "ok" or got.startswith("returned"):
            acc.violation(f"C15:{klass}-accepted/{where}", f"{dname} {mdef.name}({msgtype}) {desc} -> validate() {got}", case)
        elif got != "rejected":
            acc.violation(f"C15:{klass}-wrong-exception/{where}/{got.split()[-1]}", f"{dname} {mdef.name}({msgtype}) {desc} -> {got} instead of FIXMessageError", case)
    if expect_same is not None and got != expect_same:
        acc.violation(f"C15:permutation-changes-outcome/{klass}", f"{dname} {mdef.name}({msgtype}) {desc}: {expect_same} with the original <components> order, {got} with permutation {perm!r}", case)
    nt = has_group(entries) or nested or klass in ("M2", "M8")
    acc.case((dname, msgtype, klass, pick, pseed, with_header, perm) if nt else None,
             cls=[f"class={klass}", f"dict={dname}", "with-header" if with_header else "body-only"] + (["nested-site"] if nested else []) + ([f"perm"] if perm else []),
             sample={"dict": dname, "type": msgtype, "name": mdef.name, "case": desc, "outcome": got, "entries": len(entries)}
             if nt and len(acc.samples) < 8 and klass != "valid" and (pseed + pick) % 7 == 0 else None)
    return got


# ------------------------------------------------------------------ (1) structural differential
def structure(sset):
    """Library's parsed structure -> [(name, kind, required, sub)]."""
    out = []
    for m in sset.members.values():
        if isinstance(m, SchemaField):
            out.append((m.name, "field", bool(sset.required[m]) if isinstance(sset.required[m], bool) else repr(type(sset.required[m]).__name__), None))
        elif isinstance(m, SchemaGroup):
            req = sset.required[m]
            out.append((m.field.name, "group", req if isinstance(req, bool) else f"<{type(req).__name__}>", structure(m)))
        else:
            out.append((getattr(m, "name", "?"), type(m).__name__, None, None))
    return out


def ref_structure(members):
    return [(m[1].name, m[0], m[2], ref_structure(m[3]) if m[0] == "group" else None) for m in members]


def differential(acc, dname, perm=None):
    ref, sch = load(dname, perm)
    base_ref, base_sch = load(dname, None)
    for mt, mdef in ref.messages.items():
        case = {"dict": dname, "structure": mt, "perm": perm}
        try:
            lib = sch._messages_types[mt]
            got = structure(lib)
        except BaseException as e:  # noqa
            acc.violation("C15:structure/unreadable", f"{dname} {mdef.name}: {type(e).__name__}: {e}", case)
            continue
        exp = ref_structure(mdef.members)
        if [(a, b) for a, b, _, _ in got] != [(a, b) for a, b, _, _ in exp]:
            acc.violation("C15:structure/members-or-order", f"{dname} {mdef.name}({mt}) perm={perm!r}: parsed top-level members differ from the dictionary: "
                          f"{[a for a, *_ in got][:12]} vs {[a for a, *_ in exp][:12]}", case)
        elif got != exp:
            d = _first_diff(got, exp)
            acc.violation("C15:structure/required-or-nested" + ("/group-required-flag" if "group-flag" in d else ""), f"{dname} {mdef.name}({mt}) perm={perm!r}: {d}", case)
        if perm is not None:
            base = structure(base_sch._messages_types[mt])
            if base != got:
                acc.violation("C15:permutation-changes-structure", f"{dname} {mdef.name}({mt}): parsed structure depends on <components> order ({perm!r}): {_first_diff(got, base)}", case)
        acc.case((dname, "structure", mt, perm) if any(k == "group" for _, k, _, _ in exp) else None, cls=["structure"] + (["perm"] if perm else []))
    acc.extra[f"optional_components_with_required_members/{dname}"] = sorted(set(ref.optional_component_with_required_members))


def _first_diff(got, exp, path=""):
    for i, (g, e) in enumerate(zip(got, exp)):
        if g[:2] != e[:2]:
            return f"{path}[{i}] member {g[:2]} vs dictionary {e[:2]}"
        if g[2] != e[2]:
            return f"{path}/{e[0]} required flag {g[2]!r} vs dictionary {e[2]!r}" + (" group-flag" if e[1] == "group" else "")
        if e[1] == "group" and g[3] != e[3]:
            return _first_diff(g[3] or [], e[3] or [], f"{path}/{e[0]}")
    if len(got) != len(exp):
        return f"{path} has {len(got)} members vs dictionary {len(exp)}"
    return "?"


# ------------------------------------------------------------------ shards
def sweep(acc, dname, part, parts):
    ref, _ = load(dname)
    types = sorted(ref.messages)
    for i, mt in enumerate(types):
        if i % parts != part:
            continue
        for hdr in (False, True, "groups"):
            for ps in (0, 1, 2, 5):
                one_case(acc, dname, mt, ps, "valid", 0, hdr)
        for klass in CLASSES:
            for pick in range(4):
                one_case(acc, dname, mt, 2 + pick, klass, pick, pick % 2 == 1)
    acc.klass("sweep")


def hyp_shard(acc, n, seed):
    dn = sorted(DICTS)
    types = {d: sorted(load(d)[0].messages) for d in dn}
    strat = st.tuples(st.sampled_from(dn), st.integers(0, 10**6), st.integers(0, 10**6), st.sampled_from(["valid", "valid"] + CLASSES), st.integers(0, 60), st.sampled_from([False, True, True, "groups"]))

    def one(x):
        d, ti, ps, klass, pick, hdr = x
        one_case(acc, d, types[d][ti % len(types[d])], ps, klass, pick, hdr)

    run_given(strat, one, n, seed)


def permutation(acc, dname, perm, stride):
    differential(acc, dname, perm)
    ref, _ = load(dname)
    types = sorted(ref.messages)
    for i, mt in enumerate(types):
        for j, klass in enumerate(["valid"] + CLASSES):
            if (i + j) % stride:
                continue
            base = one_case(acc, dname, mt, 2, klass, 1, False)
            if base is not None:
                one_case(acc, dname, mt, 2, klass, 1, False, perm=perm, expect_same=base)


def diff_shard(acc, dname):
    differential(acc, dname)


def plan(tier, seed):
    jobs = [("diff_shard", {"dname": d}) for d in DICTS]
    jobs += [("sweep", {"dname": "FIX44", "part": i, "parts": 5}) for i in range(5)]
    jobs += [("sweep", {"dname": "TT", "part": i, "parts": 2}) for i in range(2)]
    perms = ["reversed", "sorted", "sorted-desc", derive_seed(seed, "perm", 0) % 1000]
    if tier == "thorough":
        perms += [derive_seed(seed, "perm", i) % 100000 for i in range(1, 36)]
    for d in DICTS:
        for p in perms:
            jobs.append(("permutation", {"dname": d, "perm": p, "stride": 3 if tier == "quick" else 1}))
    n, k = (600, 4) if tier == "quick" else (16000, 14)
    jobs += [("hyp_shard", {"n": n, "seed": derive_seed(seed, PROPERTY, i)}) for i in range(k)]
    return jobs


def replay(acc, case):
    if "structure" in case:
        differential(acc, case["dict"], case.get("perm"))
        return
    base = None
    if case.get("perm") is not None:
        base = one_case(acc, case["dict"], case["msgtype"], case["pseed"], case["klass"], case["pick"], case["header"])
    one_case(acc, case["dict"], case["msgtype"], case["pseed"], case["klass"], case["pick"], case["header"], perm=case.get("perm"), expect_same=base)
