"""Coverage-guided campaign for C10 (thorough tier only): atheris/libFuzzer on Codec.decode with C10's oracle inside the target.

Run as a subprocess by checks/c10.py:  python -B -m checks.c10_fuzz <result.json> <corpus_dir> -runs=N -seed=S -max_len=600
atexit handlers do not run under libFuzzer, so every new violation signature is appended to the result file at once
and the execution counter is flushed every 2000 runs.
"""
import json
import os
import sys


def main():
    result_path, corpus = sys.argv[1], sys.argv[2]
    fargs = [sys.argv[0], corpus] + sys.argv[3:]
    import atheris

    src = os.environ.get("ASYNCFIX_SRC", "/repo")
    if src not in sys.path[:1]:
        sys.path.insert(0, src)
    # the library must be imported for the first time inside the instrumentation context
    assert "asyncfix" not in sys.modules
    with atheris.instrument_imports(include=["asyncfix"]):
        import asyncfix  # noqa
        import asyncfix.codec  # noqa
        import asyncfix.message  # noqa
    from vlib.runner import Acc, setup_import_path

    setup_import_path()
    from checks import c10

    acc = Acc()
    state = {"n": 0, "seen": set()}

    def flush():
        with open(result_path + ".tmp", "w") as f:
            json.dump({"executions": state["n"], "nontrivial": len(acc.nontrivial),
                       "violations": {s: {"detail": v["detail"], "case": v["case"], "count": v["count"], "size": v["size"]} for s, v in acc.violations.items()}}, f)
        os.replace(result_path + ".tmp", result_path)

    def one(data):
        state["n"] += 1
        c10.judge_decode(acc, bytes(data), "atheris")
        if len(acc.violations) != len(state["seen"]) or state["n"] % 2000 == 0:
            state["seen"] = set(acc.violations)
            flush()

    atheris.Setup(fargs, one)
    atheris.Fuzz()


if __name__ == "__main__":
    main()
