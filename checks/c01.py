"""C01 - encode/decode round trip preserves every well-formed message."""
import datetime as _dt

from hypothesis import strategies as st

import asyncfix.codec as _codec
from asyncfix.codec import Codec
from asyncfix.protocol import FIXProtocol44
from asyncfix.session import FIXSession
from vlib import codec_gen as G
from vlib.hyp import run_given
from vlib.runner import derive_seed

PROPERTY = "C01"
LEVEL = "exploration"
RULE = (
    "Hypothesis-built messages, well-formed w.r.t. FIXProtocol44.repeating_groups as read from the "
    "working tree (all FMsg types + custom types; plain FTag and custom tags; every usable group of "
    "the table with 1..k items, first member always present, other members an arbitrary subset in "
    "table order, nested to depth 4; values = non-empty printable ASCII boosted with framing "
    "look-alikes, in two extra shards also printable single-byte characters 0xA0-0xFF (wire bytes = Latin-1, as the decoder reads them); modes normal / PossDupFlag (flag before the body or, as a retransmission has it, PossDupFlag + OrigSendingTime "
    "behind the body) / SequenceReset / raw_seq_num; type spelled as enum member or plain string, custom types incl. ones spelled "
    "like enum member names; one Codec object shared by all cases of a shard (many sessions); arbitrary CompIDs and "
    "counters), plus a seed-independent sweep of every table entry x 1..3 items x {delimiter only, "
    "all members, nested}. Oracle: decode(encode(m)) compared with the generator's own nested list. "
    "Non-trivial = has a group, a framing look-alike value or a non-normal mode; distinct by "
    "structural signature (type, mode, group paths with item counts, look-alike positions)."
)
ASSUMPTIONS = [
    "values are non-empty single-byte printable text (0x20-0x7E, and 0xA0-0xFF in the Latin-1 shards); empty values, zero-item groups, members out of table order are FREE",
    "ambiguity no dictionary-less parser can resolve is excluded by construction: after group G no sibling tag that is a (transitive) member of G",
]


class _FixedDT(_dt.datetime):
    @classmethod
    def utcnow(cls):
        return _dt.datetime(2023, 5, 6, 7, 8, 9, 123000)


_CODEC = []
_LAST = []


def run_case(acc, case, replaying=False):
    _codec.datetime = _FixedDT
    # ONE codec per shard for many sessions (different CompIDs, equal and different session keys): a codec must not
    # remember anything from one session / message to the next
    if not _CODEC:
        _CODEC.append(Codec(FIXProtocol44()))
    codec = _CODEC[0] if not replaying else Codec(FIXProtocol44())
    sess = FIXSession(1 if case.get("next_out", 1) % 3 else 2, case["target"], case["sender"])
    sess.next_num_out = case["next_out"]
    sess.next_num_in = 1
    cj = dict(case)
    cj.pop("_prev", None)
    if _LAST and not replaying:
        cj["_prev"] = _LAST[0]  # the case the shared codec saw just before (state carried over must be replayable)
    _LAST[:] = [{k: v for k, v in case.items() if k != "_prev"}]

    def bad(sig, detail):
        acc.violation("C01:" + sig, detail + f" | type={case['msgtype']} mode={case['mode']}", cj)

    marker = G.has_marker(case["body"]) or G.MARKER in case["sender"] or G.MARKER in case["target"]
    sfx = "/marker-in-value" if marker else ""
    try:
        msg, full_body = G.build_message(case)
    except Exception as e:  # generator bug, not a property violation
        raise RuntimeError(f"generator produced an unbuildable message: {e!r} {case}")
    try:
        text = codec.encode(msg, sess, raw_seq_num=(case["mode"] == "raw"))
    except Exception as e:
        bad("encode-raises" + sfx, f"encode raised {type(e).__name__}: {e}")
        _count(acc, case, marker)
        return
    try:
        # one byte per character (the decoder reads the wire as Latin-1); for the ASCII cases this is the ASCII encoding
        wire = text.encode("latin-1")
    except UnicodeEncodeError as e:
        bad("encode-non-ascii", f"encoder output is not single-byte text: {e}")
        _count(acc, case, marker)
        return
    try:
        dec, used, raw = codec.decode(wire)
    except Exception as e:
        bad("decode-raises" + sfx, f"decode raised {type(e).__name__}: {e}; wire={wire!r}")
        _count(acc, case, marker)
        return
    if dec is None:
        bad("not-decoded" + sfx, f"decode returned no message (used={used}); wire={wire[:300]!r}")
        _count(acc, case, marker)
        return
    if used != len(wire):
        bad("consumed-length" + sfx, f"used={used} len={len(wire)}")
    if raw != wire:
        bad("raw-bytes" + sfx, f"returned frame differs from the encoded bytes: {raw!r} vs {wire!r}")
    if str(dec.msg_type) != case["msgtype"] or dec.tags.get("35") != case["msgtype"]:
        bad("msgtype" + sfx, f"decoded type {dec.msg_type!r}/{dec.tags.get('35')!r}")
    nested = G.to_nested(dec)
    hdr = [e for e in nested if e[1] in G.HEADER_TAGS]
    got_body = [e for e in nested if e[1] not in G.HEADER_TAGS]
    exp_body = G.norm(full_body)
    if got_body != exp_body:
        bad("body" + sfx + ("/group" if G.has_group(case["body"]) else "/flat"),
            f"decoded body {got_body!r} != generated {exp_body!r}")
    hd = {e[1]: e[2] for e in hdr}
    if [e[1] for e in hdr[:3]] != ["8", "9", "35"]:
        bad("header-order", f"decoded header order {[e[1] for e in hdr]}")
    if hd.get("49") != case["sender"] or hd.get("56") != case["target"]:
        bad("compids" + sfx, f"decoded 49={hd.get('49')!r} 56={hd.get('56')!r} session sender={case['sender']!r} target={case['target']!r}")
    exp_seq = case["next_out"] if case["mode"] == "normal" else case["carried"]
    exp_counter = case["next_out"] + 1 if case["mode"] == "normal" else case["next_out"]
    s34 = hd.get("34")
    if s34 is None or not s34.isdigit() or int(s34) != exp_seq:
        bad(f"seqnum/{case['mode']}", f"decoded 34={s34!r} expected {exp_seq}")
    if sess.next_num_out != exp_counter:
        bad(f"counter/{case['mode']}", f"session next_num_out={sess.next_num_out} expected {exp_counter}")
    _count(acc, case, marker)


def _count(acc, case, marker):
    nt = G.has_group(case["body"]) or G.has_lookalike(case["body"]) or case["mode"] != "normal"
    cls = [f"mode={case['mode']}"]
    if G.has_group(case["body"]):
        cls.append("has-group")
    if G.has_lookalike(case["body"]):
        cls.append("has-lookalike")
    if marker:
        cls.append("has-marker")
    if case["msgtype"] not in G.STD_TYPES:
        cls.append("custom-type")
    sample = None
    if nt and len(acc.samples) < 4 and len(repr(case)) < 700 and G.has_group(case["body"]):
        sample = case
    acc.case(G.structure_sig(case) if nt else None, cls=cls, sample=sample)


def sweep(acc):
    for c in G.sweep_cases():
        run_case(acc, c)
        acc.klass("sweep")
    acc.extra["skipped_groups"] = sorted(G.SKIPPED_GROUPS)
    acc.extra["table_entries"] = len(G.TABLE)


_L1 = st.text(alphabet=st.characters(min_codepoint=0xA0, max_codepoint=0xFF), min_size=1, max_size=6)


@st.composite
def latin1_case(draw, max_entries):
    """A generated message some of whose values also carry printable single-byte characters beyond ASCII (0xA0-0xFF)."""
    case = dict(draw(G.message_case(True, max_entries)))

    def walk(body):
        out = []
        for e in body:
            if e[0] == "f":
                out.append((e[0], e[1], e[2] + draw(_L1)) if draw(st.integers(0, 2)) == 0 else e)
            else:
                out.append((e[0], e[1], [walk(i) for i in e[2]]))
        return out
    case["body"] = walk(case["body"])
    case["latin1"] = True
    return case


def scale(acc):
    """Seed-independent cases at scale: BodyLength crossing 999 -> 1000, 9999 -> 10000, 99999 -> 100000 and 999999 -> 1000000
    (one long value), groups of 9 / 10 / 32 / 33 / 100 / 300 items whose items differ in which optional member they carry,
    sequence numbers at digit-count boundaries and at 2^31, 2^53 + 1, 2^63 - 1 in every mode."""
    base = {"msgtype": "D", "mode": "normal", "sender": "CLI", "target": "SRV", "next_out": 7, "carried": 3}
    for L in (930, 940, 950, 9930, 9940, 9950, 99930, 99940, 99950, 150000, 999930, 999950):
        run_case(acc, dict(base, body=[("f", "11", "id"), ("f", "58", "x" * L), ("f", "5001", "after")], sweep=f"scale/value-{L}"))
        acc.klass("scale")
    g = "453" if "453" in G.TABLE else sorted(G.GROUP_KEYS - G.SKIPPED_GROUPS, key=int)[0]
    ms = [m for m in G.TABLE[g] if m not in G.TABLE]
    for n in (9, 10, 11, 32, 33, 100, 300):
        items = []
        for k in range(n):
            it = [("f", ms[0], f"v{k}")]
            if len(ms) > 2:
                it.append(("f", ms[1 + k % 2], f"opt{k}"))  # same field count, different optional member from item to item
            items.append(it)
        run_case(acc, dict(base, body=[("f", "11", "before"), ("g", g, items), ("f", "5001", "after")], sweep=f"scale/group-{n}"))
        acc.klass("scale")
    for n in (9, 10, 99, 100, 999, 1000, 9999, 10000, 2**31 - 1, 2**31, 2**53 + 1, 10**18 - 1, 10**18 + 7, 2**63 - 2):
        for mode in ("normal", "possdup", "seqreset", "raw"):
            run_case(acc, dict(base, mode=mode, next_out=n, carried=n if mode != "normal" else 3, body=[("f", "58", "x")] if mode != "seqreset" else [],
                               newseqno=n + 1, gapfill="Y", msgtype="4" if mode == "seqreset" else "D", sweep=f"scale/seq-{n}-{mode}"))
            acc.klass("scale")


def hyp_shard(acc, n, seed, max_entries):
    run_given(G.message_case(True, max_entries), lambda c: run_case(acc, c), n, seed)


def latin1_shard(acc, n, seed, max_entries):
    def one(c):
        run_case(acc, c)
        acc.klass("latin-1-values")
    run_given(latin1_case(max_entries), one, n, seed)


def plan(tier, seed):
    shards, n, me = (8, 500, 8) if tier == "quick" else (16, 20000, 14)
    jobs = [("sweep", {}), ("scale", {})]
    jobs += [("hyp_shard", {"n": n, "seed": derive_seed(seed, PROPERTY, i), "max_entries": me}) for i in range(shards)]
    jobs += [("latin1_shard", {"n": n // 2, "seed": derive_seed(seed, PROPERTY, 100 + i), "max_entries": 6}) for i in range(2)]
    return jobs


def _retuple(body):
    return [tuple(e[:2]) + ((e[2],) if e[0] == "f" else ([_retuple(i) for i in e[2]],)) for e in body]


def replay(acc, case):
    case = dict(case)
    case["body"] = _retuple(case["body"])
    prev = case.pop("_prev", None)
    _CODEC[:] = []
    _LAST[:] = []
    if prev:
        from vlib.runner import Acc

        prev = dict(prev)
        prev["body"] = _retuple(prev["body"])
        run_case(Acc(), prev)
    run_case(acc, case)
