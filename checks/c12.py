"""C12 - the heartbeat watchdog detects dead peers and spares live ones (virtual time)."""
from hypothesis import strategies as st

from vlib.hyp import run_given
from vlib.reffix import ref_get, ref_parse
from vlib.runner import derive_seed
from vlib.sess import Bench

PROPERTY = "C12"
LEVEL = "exploration"
RULE = (
    "Hypothesis scenarios in virtual time on a real logged-on endpoint (both roles; on its first connection, on its second, and on a second connection before which the application tried the public send_test_req() while disconnected and was refused) with the real heartbeat_timer_task and "
    "reader task: HeartBtInt hb in [1, 120] s; phase of the last inbound frame relative to the 1 s watchdog tick in [0, 1); "
    "peer script in {silent from t0; periodic traffic with period 0.3/0.6/0.9/1.1/1.7 x hb (valid Heartbeats or application "
    "messages); burst then silence; answers every TestRequest after a delay in [0, 2.2 hb] with the right / a wrong / a "
    "right id at the end of a coalesced write of 4096+k bytes or behind a 70 KB message / numerically lower / non-numeric / no TestReqID / (from the second TestRequest on) the id of the previous TestRequest, optionally sending an application message while its answer is under way or with one of its frames lost right before the answer; answers the first 1-3 TestRequests and is dead from then on; is live while the wall clock steps forward by 2.5-20 intervals (outcome FREE, counted); sends its own TestRequests "
    "(ids text, numbers, '0', '00', base64-like with '=' inside; optionally every second one preceded by a lost frame); reveals a gap and replays it slowly but steadily (one PossDup message every 0.3-0.8 hb)}; the scripted "
    "peer answers the endpoint's ResendRequests with a GapFill; the scenario runs on the first or on the second connection of the same object, optionally after the peer sent a ResendRequest (valid, beyond what was sent, or inverted) earlier in the session; optional own outbound application traffic. Oracle (tolerances: "
    "tick 1 s, TestReqID truncation 1 s): silent peer -> TestRequest within (hb-1, hb+1] s of the last inbound frame, "
    "disconnected no later than 3 hb + 3 s after it and not before 2 hb - 1 s after the TestRequest; peer with period <= hb "
    "- 1.5 s -> no TestRequest and no disconnect over the horizon; peer answering each TestRequest with the right id within 2 hb "
    "- 2 s -> never disconnected, never two TestRequests outstanding; every inbound TestRequest answered by exactly one "
    "Heartbeat with the same TestReqID string; a Heartbeat with a wrong TestReqID while one is outstanding -> Logout then "
    "disconnect; a peer replaying a gap with one frame every <= hb - 1.5 s is not disconnected during the replay and the replayed "
    "messages are delivered once each in order. Non-trivial = scenario in which at least one TestRequest is written; distinct by scenario parameters."
)
ASSUMPTIONS = [
    "virtual clock replaces time.time() in asyncfix.connection and the event-loop clock; horizon = 8 hb + 10 s",
    "FREE: what happens after a step of the wall clock; answers later than 2 hb - 2 s; a Heartbeat without TestReqID while a TestRequest is outstanding; peers that send traffic but ignore TestRequests; the window between 2 hb - 1 s after the TestRequest and 3 hb + 3 s",
]


def run_scenario(acc, sc):
    role, hb, phase, script = sc["role"], sc["hb"], sc["phase"], sc["script"]
    b = Bench(role, "active", hb=hb)
    ep, loop = b.ep, b.w.loop
    case = dict(sc)

    def bad(sig, detail):
        acc.violation("C12:" + sig, detail + f" | role={role} hb={hb} phase={phase:.2f} script={script}", case)

    if sc.get("second"):
        # the scenario runs on the SECOND connection of the same object (the first ended by connection loss)
        b.link.break_("eof")
        b.w.idle()
        if sc.get("second") == "testreq-refused":
            # between the connections the application tries the public send_test_req(): refused (FIXConnectionError), nothing is sent
            r = b.w.call(ep.send_test_req())
            if r[0] != "exc":
                bad("setup/testreq-while-disconnected-not-refused", f"send_test_req() while disconnected returned {r!r}")
        b.w.advance(1.01)
        if role == "acceptor":
            b.link = b.w.attach_server_only()
        else:
            b.w.connect_client()
            b.link = b.w.link
        b.feed(b.frame("A", ep._session.next_num_in, [(98, 0), (108, hb)]))
        if ep.connection_state.name != "ACTIVE":
            bad("setup/second-logon", f"second connection did not reach ACTIVE: {ep.connection_state.name}")
            b.close()
            return
    state = {"seq": ep._session.next_num_in, "answers": 0, "pending_tr": [], "sent_tr_ids": [], "w_seen": len(b.link.writers[b.side].written)}
    writer = b.link.writers[b.side]
    reader = b.link.readers[b.side]

    def feed(msgtype, fields=()):
        if b.disconnected() or ep._socket_reader is None:
            return
        fr = b.frame(msgtype, state["seq"], list(fields))
        state["seq"] += 1
        reader.feed(fr)

    trs = []  # (time, id)

    def on_write(data, when):
        if when != "post":
            return
        p = ref_parse(data)
        if ref_get(p, 35) == "2":
            # a well-behaved peer answers the endpoint's ResendRequest: its lost frames were administrative -> GapFill
            lo = int(ref_get(p, 7))

            def fill(lo=lo):
                if b.disconnected() or ep._socket_reader is None:
                    return
                reader.feed(b.frame("4", lo, [(123, "Y"), (36, state["seq"])], possdup=True))
            state["resend_requests"] = state.get("resend_requests", 0) + 1
            if script[0] != "slow-replay":
                loop.call_later(0.05, fill)
        if ref_get(p, 35) == "1":
            tid = ref_get(p, 112)
            trs.append((loop.time(), tid))
            kind = script[0]
            if kind == "answer-then-die":
                # the peer answers the first n TestRequests correctly and is dead from then on
                if state["answers"] + state.get("scheduled", 0) < script[2]:
                    state["scheduled"] = state.get("scheduled", 0) + 1

                    def ans(tid=tid):
                        state["scheduled"] -= 1
                        state["answers"] += 1
                        state["t_last_answer"] = loop.time()
                        feed("0", [(112, tid)])
                    loop.call_later(script[1] * hb, ans)
            if kind == "clock-step":
                loop.call_later(0.05, lambda tid=tid: feed("0", [(112, tid)]))
            if kind == "answer":
                delay_f, idkind = script[1], script[2]
                d = delay_f * hb

                def answer(tid=tid):
                    if len(script) > 4 and script[4]:
                        state["seq"] += 1  # a frame of the peer was lost right before its answer
                    if idkind == "right" or (idkind == "previous" and len(trs) < 2):
                        feed("0", [(112, tid)])
                    elif idkind == "previous":
                        # the id of the TestRequest before this one (answered correctly at the time): a wrong id now
                        state.setdefault("t_prev_answer", loop.time())
                        feed("0", [(112, trs[-2][1])])
                    elif idkind == "wrong":
                        feed("0", [(112, str(int(tid) + 7) if tid and tid.isdigit() else "123")])
                    elif idkind == "wrong-low":
                        feed("0", [(112, str(int(tid) - 1) if tid and tid.isdigit() else "1")])
                    elif idkind == "wrong-one":
                        feed("0", [(112, "1")])
                    elif idkind == "nonnumeric":
                        feed("0", [(112, "abc")])
                    elif idkind in ("right-burst", "right-big"):
                        # the right answer at the end of one coalesced write: behind an application message padded so that the
                        # write is 4096 + k bytes (k = 1..7: the read boundary falls inside the answer's CheckSum field), or
                        # behind a 70 KB application message
                        if b.disconnected() or ep._socket_reader is None:
                            return
                        hbf = b.frame("0", state["seq"] + 1, [(112, tid)])
                        if idkind == "right-big":
                            appf = b.frame("B", state["seq"], [(148, "big"), (58, "x" * 70000)])
                        else:
                            k = 1 + (len(trs) % 7)
                            base = len(b.frame("B", state["seq"], [(148, "pad"), (58, "")]))
                            fill = 4096 + k - len(hbf) - base
                            appf = b.frame("B", state["seq"], [(148, "pad"), (58, "y" * fill)])
                            appf = b.frame("B", state["seq"], [(148, "pad"), (58, "y" * (fill - (len(appf) - base - fill)))])
                        state["seq"] += 2
                        reader.feed(appf + hbf)
                    elif idkind == "wrong-latin1":
                        feed("0", [(112, "12345\xe9")])  # a wrong id carrying a byte >= 0x80
                    elif idkind == "wrong-twice":
                        feed("0", [(112, "777"), (112, "778")])  # a Heartbeat carrying TestReqID twice, neither the right one
                    else:
                        feed("0", [])
                    state["answers"] += 1
                loop.call_later(d, answer)
                if len(script) > 3 and script[3] is not None:
                    # the peer also sends an application message while its answer is still under way
                    loop.call_later(script[3] * hb, lambda: feed("D", [(11, "busy-peer")]))

    writer.on_write = on_write
    try:
        pre = sc.get("pre")
        if pre:
            # earlier in the session the peer sent a ResendRequest: a valid one, or one whose range is refused (beyond what was sent)
            n_out = ep._session.next_num_out
            feed("2", [(7, 1), (16, 0)] if pre == "rr-valid" else [(7, n_out + 5), (16, 0)] if pre == "rr-beyond" else [(7, 3), (16, 2)])
            b.w.idle()
        b.w.advance(phase)
        t0 = loop.time()
        feed("D", [(11, "last-before-silence")])
        b.w.idle()
        horizon = 8 * hb + 10
        kind = script[0]
        if kind == "periodic":
            _, pf, mt = script
            p = max(pf * hb, 0.05)
            k = 1
            while k * p < horizon:
                loop.call_later(k * p, lambda: feed(mt, [(11, "tick")] if mt == "D" else []))
                k += 1
        elif kind == "clock-step":
            # a live peer (traffic every pf*hb, TestRequests answered at once); at t0 + 2.3 hb the wall clock jumps forward by
            # `jump` intervals (NTP step, VM / laptop resume) while the loop's monotonic time runs on
            _, pf, jump = script
            p = max(pf * hb, 0.05)
            k = 1
            while k * p < horizon:
                loop.call_later(k * p, lambda: feed("0"))
                k += 1

            def step():
                loop.wall_offset = getattr(loop, "wall_offset", 0.0) + jump * hb
            loop.call_later(2.3 * hb, step)
        elif kind == "burst":
            _, n, over = script
            for i in range(n):
                loop.call_later(over * hb * (i + 1) / n, lambda: feed("0"))
        elif kind == "peer-testreq":
            pf = script[1]
            lossy = len(script) > 2 and script[2]
            p = max(pf * hb, 0.05)
            k = 1
            while k * p < horizon:
                def tr(k=k):
                    if lossy and k % 2 == 0:
                        state["seq"] += 1  # the frame before this TestRequest was lost
                    # ids: text, base64-like (with '=' inside), plain numbers, and the falsy-looking "0" / "00"
                    tid = [f"PEER-{k}", f"cGVlcg{k}==", str(k), "0", f"PEER-{k}", "00", f"{k}.0"][k % 7]
                    state["sent_tr_ids"].append(tid)
                    feed("1", [(112, tid)])
                loop.call_later(k * p, tr)
                k += 1
        elif kind == "slow-replay":
            # the peer skips numbers, the endpoint asks for a resend, the peer replays slowly but steadily
            _, nmsgs, pf = script
            first = state["seq"]
            state["seq"] += nmsgs
            feed("D", [(11, "after-the-gap")])  # numbered first+nmsgs: reveals the gap
            for i in range(nmsgs + 1):
                loop.call_later((i + 1) * pf * hb, lambda i=i: (None if b.disconnected() or ep._socket_reader is None else reader.feed(
                    b.frame("D", first + i, [(11, f"replayed-{i}")], possdup=True))))
            state["replay_until"] = (nmsgs + 1) * pf * hb
        if sc.get("own_traffic"):
            from asyncfix import FMsg
            from asyncfix.message import FIXMessage

            def own():
                if not b.disconnected():
                    loop.create_task(ep.send_msg(FIXMessage(FMsg.NEWORDERSINGLE, {11: "own"})))
            k = 1
            while k * 0.7 * hb < horizon:
                loop.call_later(k * 0.7 * hb, own)
                k += 1
        b.w.advance(horizon)
        # ---------------- judge
        t_last_inbound = t0
        if kind == "burst":
            t_last_inbound = t0 + script[2] * hb
        disc = [t for (k, _, t) in ep.events if k == "disconnect" and t >= t0]
        t_disc = disc[0] if disc else None
        frames = [(t, ref_parse(x)) for t, x in writer.written if t >= t0]
        logouts = [t for t, p in frames if ref_get(p, 35) == "5"]
        eps = 1e-6
        if trs and trs[0][0] < t0:
            # with hb=1 the watchdog already fired during the phase shift, before the scenario proper started:
            # a TestRequest the script never answers is outstanding -> not the scenario that was asked for
            acc.klass("testrequest-before-t0-skipped")
            acc.case(None, cls=f"script={kind}")
            return
        if kind == "burst" and trs and trs[0][0] < t_last_inbound:
            # a TestRequest went out while the burst was still running and the peer never answers it:
            # "peer sends traffic but ignores TestRequests" is FREE
            acc.klass("burst-overlaps-testrequest-FREE")
        elif kind in ("silent", "burst"):
            if not trs:
                bad("silent/no-testrequest", f"peer silent since t0+{t_last_inbound - t0:.2f}: no TestRequest in {horizon} s")
            else:
                dt = trs[0][0] - t_last_inbound
                if not (hb - 1 - eps < dt <= hb + 1 + eps):
                    bad("silent/testrequest-timing", f"TestRequest {dt:.2f} s after the last inbound frame, expected in ({hb - 1}, {hb + 1}]")
                if len(trs) > 1:
                    bad("two-testrequests-outstanding", f"{len(trs)} TestRequests written although none was answered: at {[round(t - t0, 2) for t, _ in trs]}")
                if t_disc is None:
                    bad("silent/not-disconnected", f"silent peer: still {ep.connection_state.name} after {horizon} s")
                else:
                    if t_disc - t_last_inbound > 3 * hb + 3 + eps:
                        bad("silent/disconnect-too-late", f"disconnected {t_disc - t_last_inbound:.2f} s after the last inbound frame (> 3 hb + 3)")
                    if t_disc - trs[0][0] < 2 * hb - 1 - eps:
                        bad("silent/disconnect-too-early", f"disconnected {t_disc - trs[0][0]:.2f} s after the TestRequest (< 2 hb - 1)")
        elif kind == "periodic":
            p = max(script[1] * hb, 0.05)
            if p <= hb - 1.5:
                if trs:
                    bad("live/testrequest-to-live-peer", f"peer sends every {p:.2f} s (hb={hb}) yet a TestRequest was written at t0+{trs[0][0] - t0:.2f}")
                if t_disc is not None:
                    bad("live/disconnected-live-peer", f"peer sends every {p:.2f} s (hb={hb}) yet disconnected at t0+{t_disc - t0:.2f}")
        elif kind == "answer":
            delay_f, idkind = script[1], script[2]
            d = delay_f * hb
            if idkind in ("right", "right-burst", "right-big") and d <= 2 * hb - 2:
                if t_disc is not None:
                    bad("answering/disconnected", f"peer answers every TestRequest after {d:.2f} s with the right id, yet disconnected at t0+{t_disc - t0:.2f}")
                # never two outstanding: consecutive TestRequests must be separated by an answer
                for (ta, _), (tb, _) in zip(trs, trs[1:]):
                    if tb < ta + d - eps:
                        bad("two-testrequests-outstanding", f"second TestRequest at t0+{tb - t0:.2f} while the one of t0+{ta - t0:.2f} was unanswered (answer delay {d:.2f})")
                        break
                if not trs:
                    bad("silent/no-testrequest", "peer only answers TestRequests but none was ever written")
                elif not (hb - 1 - eps < trs[0][0] - t0 <= hb + 1 + eps):
                    bad("silent/testrequest-timing", f"first TestRequest {trs[0][0] - t0:.2f} s after the last inbound frame")
            elif idkind in ("wrong", "wrong-low", "wrong-one", "nonnumeric", "wrong-latin1", "wrong-twice") and d <= 2 * hb - 2 and trs:
                t_ans = trs[0][0] + d
                if t_disc is None:
                    bad(f"wrong-id/not-disconnected/{idkind}", f"Heartbeat with a {idkind} TestReqID at t0+{t_ans - t0:.2f}: endpoint still {ep.connection_state.name}")
                elif abs(t_disc - t_ans) > 1e-3:
                    bad(f"wrong-id/disconnect-time/{idkind}", f"wrong TestReqID at t0+{t_ans - t0:.2f}, disconnected at t0+{t_disc - t0:.2f}")
                if not any(abs(t - t_ans) < 1e-3 for t in logouts):
                    bad(f"wrong-id/no-logout/{idkind}", f"no Logout written when the wrong TestReqID arrived (t0+{t_ans - t0:.2f}); logouts at {[round(t - t0, 2) for t in logouts]}")
            elif idkind == "previous" and d <= hb - 1.5 and len(trs) >= 2 and trs[1][1] != trs[0][1]:
                t_ans = trs[1][0] + d
                if t_disc is None:
                    bad("wrong-id/not-disconnected/previous", f"second TestRequest {trs[1][1]!r} answered with the id of the first {trs[0][1]!r} at t0+{t_ans - t0:.2f}: endpoint still {ep.connection_state.name}")
                elif abs(t_disc - t_ans) > 1e-3:
                    bad("wrong-id/disconnect-time/previous", f"wrong (previous) TestReqID at t0+{t_ans - t0:.2f}, disconnected at t0+{t_disc - t0:.2f}")
                if not any(abs(t - t_ans) < 1e-3 for t in logouts):
                    bad("wrong-id/no-logout/previous", f"no Logout written when the previous TestReqID arrived (t0+{t_ans - t0:.2f}); logouts at {[round(t - t0, 2) for t in logouts]}")
        elif kind == "answer-then-die":
            n_ans = script[2]
            d = script[1] * hb
            if d <= hb - 1.5 and len(trs) >= n_ans and state["answers"] == n_ans:
                t_last = state["t_last_answer"]
                later = [t for t, _ in trs if t > t_last + eps]
                if not later:
                    bad("silent/no-testrequest", f"peer answered {n_ans} TestRequest(s) and is silent since t0+{t_last - t0:.2f}: no further TestRequest in {horizon} s")
                else:
                    dt = later[0] - t_last
                    if not (hb - 1 - eps < dt <= hb + 1 + eps):
                        bad("silent/testrequest-timing/after-an-answered-one", f"TestRequest {dt:.2f} s after the last inbound frame (the answer to TestRequest #{n_ans}), expected in ({hb - 1}, {hb + 1}]")
                    if len(later) > 1:
                        bad("two-testrequests-outstanding", f"{len(later)} TestRequests written after the peer died: at {[round(t - t0, 2) for t in later]}")
                    if t_disc is None:
                        if t_last + 3 * hb + 3 < t0 + horizon - 1:
                            bad("silent/not-disconnected", f"peer dead since t0+{t_last - t0:.2f}: still {ep.connection_state.name} after {horizon} s")
                    else:
                        if t_disc - t_last > 3 * hb + 3 + eps:
                            bad("silent/disconnect-too-late/after-an-answered-one", f"disconnected {t_disc - t_last:.2f} s after the last inbound frame (> 3 hb + 3)")
                        if t_disc - later[0] < 2 * hb - 1 - eps:
                            bad("silent/disconnect-too-early", f"disconnected {t_disc - later[0]:.2f} s after the TestRequest (< 2 hb - 1)")
        elif kind == "clock-step":
            # FREE: the statement quantifies over arrival patterns on a consistent clock; what a watchdog that measures with
            # the wall clock does when that clock is stepped is not fixed by it (counted only)
            if t_disc is not None:
                acc.klass("disconnected-after-clock-step-FREE")
        elif kind == "slow-replay":
            until = state["replay_until"]
            gap_frames = script[2] * hb
            if gap_frames <= hb - 1.5:
                early = [t for t in [t_disc] if t is not None and t - t0 <= until + 1e-6]
                if early:
                    bad("live/disconnected-during-replay", f"peer replays a gap with one frame every {gap_frames:.2f} s (hb={hb}), yet the endpoint disconnected at t0+{t_disc - t0:.2f} while the replay ran until t0+{until:.2f}")
                dels = [str(pl.get(11, "")) for k, pl, t in ep.events if k == "msg" and t >= t0 and str(pl.get(11, "")).startswith("replayed")]
                # the last replayed frame re-sends the number of the message that revealed the gap: delivered or not is FREE here
                want = [f"replayed-{i}" for i in range(script[1])]
                if t_disc is None and [d for d in dels if d != f"replayed-{script[1]}"] != want:
                    bad("replay/not-delivered", f"replayed messages delivered: {dels}, expected {want} in order, once each")
        elif kind == "peer-testreq":
            p = max(script[1] * hb, 0.05)
            got = [ref_get(pp, 112) for t, pp in frames if ref_get(pp, 35) == "0" and ref_get(pp, 112) is not None]
            sent = [i for i in state["sent_tr_ids"]]
            if t_disc is None:
                if got != sent:
                    bad("peer-testrequest/answers", f"peer sent TestRequests {sent[:6]}..., Heartbeats echo {got[:6]}... ({len(got)} vs {len(sent)})")
            if p <= hb - 1.5 and (trs or t_disc is not None) and not (len(script) > 2 and script[2]):
                bad("live/testrequest-to-live-peer", f"peer sends a TestRequest every {p:.2f} s yet TestRequest/disconnect happened (trs={len(trs)}, disc={t_disc})")
        nt = bool(trs)
        acc.case((role, hb, round(phase, 3), tuple(script), sc.get("own_traffic", False), sc.get("second", False), sc.get("pre")) if nt else None,
                 cls=[f"script={kind}", f"role={role}", "hb<3" if hb < 3 else "hb>=3"] + (["second-connection"] if sc.get("second") else []) + ([f"pre={sc['pre']}"] if sc.get("pre") else []) + (["lossy-peer"] if (kind == "answer" and len(script) > 4 and script[4]) or (kind == "peer-testreq" and len(script) > 2 and script[2]) else []) + (["testrequest-written"] if trs else []) + (["disconnected"] if t_disc is not None else []),
                 sample={"role": role, "hb": hb, "phase": round(phase, 3), "script": list(script), "testrequests_at": [round(t - t0, 2) for t, _ in trs][:4],
                         "disconnected_at": None if t_disc is None else round(t_disc - t0, 2)} if nt and len(acc.samples) < 6 and kind in ("silent", "answer") else None)
    finally:
        writer.on_write = None
        b.close()


hbs = st.one_of(st.integers(1, 6), st.sampled_from([1, 2, 3, 5, 10, 30, 60, 120]), st.integers(1, 120))
script = st.one_of(
    st.tuples(st.just("silent")),
    st.tuples(st.just("periodic"), st.sampled_from([0.3, 0.6, 0.9, 1.0, 1.1, 1.7]), st.sampled_from(["0", "D"])),
    st.tuples(st.just("burst"), st.integers(1, 5), st.sampled_from([0.5, 1.0, 2.5])),
    st.tuples(st.just("answer"), st.sampled_from([0.0, 0.1, 0.5, 0.9, 1.0, 1.5, 1.9, 2.2]), st.sampled_from(["right", "right", "wrong", "wrong-low", "wrong-one", "nonnumeric", "missing", "wrong-latin1", "wrong-twice"])),
    st.tuples(st.just("peer-testreq"), st.sampled_from([0.3, 0.6, 0.9, 1.7])),
    st.tuples(st.just("answer"), st.sampled_from([0.5, 0.9, 1.2, 1.5, 1.9]), st.just("right"), st.sampled_from([0.05, 0.3, 0.6, 1.0])),
    st.tuples(st.just("answer"), st.sampled_from([0.0, 0.5, 0.9, 1.5]), st.just("right"), st.none(), st.just(True)),
    st.tuples(st.just("peer-testreq"), st.sampled_from([0.3, 0.6, 0.9]), st.just(True)),
    st.tuples(st.just("slow-replay"), st.integers(3, 8), st.sampled_from([0.3, 0.5, 0.8])),
    st.tuples(st.just("answer"), st.sampled_from([0.0, 0.1, 0.3]), st.just("previous")),
    st.tuples(st.just("answer"), st.sampled_from([0.0, 0.5, 0.9]), st.sampled_from(["right-burst", "right-burst", "right-big"])),
    st.tuples(st.just("answer-then-die"), st.sampled_from([0.0, 0.1, 0.3]), st.integers(1, 3)),
    st.tuples(st.just("clock-step"), st.sampled_from([0.3, 0.6]), st.sampled_from([2.5, 4, 20])),
)
scenario = st.fixed_dictionaries({"role": st.sampled_from(["acceptor", "initiator"]), "hb": hbs, "phase": st.floats(0, 0.999), "script": script,
                                  "own_traffic": st.sampled_from([False, False, False, True]), "second": st.sampled_from([False, False, True]),
                                  "pre": st.sampled_from([None, None, None, "rr-valid", "rr-beyond", "rr-inverted"])})


def hyp_shard(acc, n, seed):
    run_given(scenario, lambda sc: run_scenario(acc, sc), n, seed)


def grid(acc, role):
    """Seed-independent grid: every script kind x a ladder of intervals x a few phases."""
    for hb in (1, 2, 3, 5, 30):
        for phase in (0.0, 0.37, 0.99):
            for sc in ([("silent",)] + [("periodic", f, "0") for f in (0.3, 0.9, 1.1)] + [("answer", d, k) for d in (0.0, 0.9, 1.9) for k in ("right", "wrong", "wrong-low", "missing", "wrong-latin1", "wrong-twice")]
                       + [("peer-testreq", 0.6)] + [("burst", 3, 1.0)] + [("answer", 1.5, "right", 0.3), ("answer", 1.9, "right", 0.6)]
                       + [("answer", 0.5, "right", None, True), ("peer-testreq", 0.6, True), ("slow-replay", 6, 0.5)]
                       + [("answer", 0.5, "right-burst"), ("answer", 0.0, "right-big")]
                       + [("answer", 0.1, "previous"), ("answer-then-die", 0.0, 1), ("answer-then-die", 0.1, 2), ("clock-step", 0.3, 4)]):
                run_scenario(acc, {"role": role, "hb": hb, "phase": phase, "script": sc, "own_traffic": False})
            for sc in [("silent",), ("answer", 0.9, "right"), ("periodic", 0.3, "0")]:
                run_scenario(acc, {"role": role, "hb": hb, "phase": phase, "script": sc, "own_traffic": False, "second": True})
                run_scenario(acc, {"role": role, "hb": hb, "phase": phase, "script": sc, "own_traffic": False, "second": "testreq-refused"})
                for pre in ("rr-valid", "rr-beyond", "rr-inverted"):
                    run_scenario(acc, {"role": role, "hb": hb, "phase": phase, "script": sc, "own_traffic": False, "pre": pre})
    acc.klass("grid")


def plan(tier, seed):
    n, k = (150, 14) if tier == "quick" else (3000, 16)
    return [("grid", {"role": r}) for r in ("acceptor", "initiator")] + [("hyp_shard", {"n": n, "seed": derive_seed(seed, PROPERTY, i)}) for i in range(k)]


def replay(acc, case):
    case = dict(case)
    case["script"] = tuple(case["script"])
    run_scenario(acc, case)
