"""C19 - field value validation matches the FIX datatype lexical spaces."""
import itertools
import os
import warnings

from hypothesis import strategies as st

from asyncfix.errors import FIXMessageError
from asyncfix.protocol.schema import FIXSchema, SchemaField
from vlib import lexical as L
from vlib.dictref import Dictionary
from vlib.hyp import run_given
from vlib.runner import SRC, derive_seed

PROPERTY = "C19"
LEVEL = "exploration"
RULE = (
    "For every datatype used by tests/FIX44.xml and tests/TT-FIX44.xml (one representative non-enumerated "
    "field per type per dictionary, fetched from a real FIXSchema, plus a synthetic SchemaField per type): "
    "EXHAUSTIVELY all strings of length 1..4 over a 10-symbol type-specific alphabet (numeric: 0 1 9 - + . _ "
    "blank e Arabic-Indic-3; text/code types: A Y N z 1 blank _ = SOH e-acute), the empty string, every "
    "single-character substitution (15-symbol alphabet) / deletion / insertion at every position of valid "
    "templates of the fixed-layout types plus field-boundary values, Hypothesis members and one-edit near "
    "misses of longer values, every third one also offered to one field of every other datatype; a pool of templates, boundary values and "
    "members of all types offered to the fields of every datatype in one process in three orders (the verdict must not depend on "
    "what was validated before); for EVERY enumerated field of both dictionaries every enumerator and near "
    "misses (case flip, blank padding, prefix, concatenation). Three-valued oracle from FIX 4.4 Vol.1 data "
    "types (must-accept / must-reject / FREE); every rejection must be FIXMessageError. Non-trivial = string "
    "on which the oracle is not FREE; distinct by (type, field, string)."
)
ASSUMPTIONS = [
    "FREE (not judged): '.5' style floats, '=' and non-printable/non-ASCII characters in String/char, year 0000, 30 February, second 60, "
    "4-9 fraction digits, lower-case or short codes, DATA, LENGTH and datatypes the library only warns about, multiple-value strings beyond "
    "printable tokens separated by single blanks",
    "vlib/lexical.py is the reading of FIX 4.4 Volume 1 'Data Types' used as oracle",
]
DICTS = ["tests/FIX44.xml", "tests/TT-FIX44.xml"]
NUM_ALPHA = ["0", "1", "9", "-", "+", ".", "_", " ", "e", "٣"]
TXT_ALPHA = ["A", "Y", "N", "z", "1", " ", "_", "=", "\x01", "é"]
EDIT_ALPHA = ["0", "1", "2", "3", "5", "6", "9", "-", ":", ".", "w", " ", "٣", "+", "T"]
NUMERIC = {"INT", "SEQNUM", "NUMINGROUP", "DAYOFMONTH"} | L.FLOATS
TEXTUAL = {"STRING", "CHAR", "BOOLEAN", "COUNTRY", "CURRENCY", "EXCHANGE", "MULTIPLESTRINGVALUE", "MULTIPLEVALUESTRING"}
LAYOUT = {"UTCTIMESTAMP", "UTCTIMEONLY", "UTCDATEONLY", "LOCALMKTDATE", "MONTHYEAR"}
TEMPLATES = {
    "UTCTIMESTAMP": ["20230921-14:00:00", "20230921-14:00:00.123", "20241231-23:59:59.999"],
    "UTCTIMEONLY": ["14:00:00", "14:00:00.123", "23:59:59"],
    "UTCDATEONLY": ["20230921", "20241231"],
    "LOCALMKTDATE": ["20230921", "20241231"],
    "MONTHYEAR": ["202309", "20230921", "202309w1", "202312w5"],
}


def boundaries(t):
    out = []
    dates = []
    for mm in ("00", "01", "12", "13", "1", "99"):
        for dd in ("00", "01", "28", "31", "32", "1"):
            dates.append("2023" + mm + dd)
    times = []
    for hh in ("00", "23", "24", "1", "99"):
        for mi in ("00", "59", "60", "1"):
            for ss in ("00", "59", "60", "61", "1"):
                times.append(f"{hh}:{mi}:{ss}")
    fracs = ["", ".", ".1", ".12", ".123", ".1234", ".12345", ".123456", ".1234567", ".١٢٣"]
    # years with leading zeros (0001..0999), the last year, leap days
    odd_years = ["00010101", "09991231", "01000615", "99991231", "20240229", "20000229", "19000228", "10000101"]
    if t in ("UTCDATEONLY", "LOCALMKTDATE"):
        out = dates + odd_years + ["2023921", "202309211", "2023-09-21", "20230921 ", " 20230921", "٢٠٢٣٠٩٢١"]
    elif t == "UTCTIMEONLY":
        out = times + ["14:00:00" + f for f in fracs] + ["1:2:3", "14:0:0", "140000", " 14:00:00", "14:00:00 "]
    elif t == "UTCTIMESTAMP":
        out = [d + "-14:00:00" for d in dates] + ["20230921-" + x for x in times] + ["20230921-14:00:00" + f for f in fracs]
        out += [d + "-23:59:59" for d in odd_years] + [d + "-00:00:00.000" for d in odd_years] + ["20161231-23:59:60", "20230921-00:00:00.999"]
        out += ["2023115-1:2:3", "20230921 14:00:00", "20230921T14:00:00", "20230921-14:00", "20230921", "20230921-140000", " 20230921-14:00:00"]
    elif t == "MONTHYEAR":
        out = [d[:6] for d in dates] + dates + [d[:6] for d in odd_years] + odd_years + ["2023" + mm + w for mm in ("00", "01", "12", "13") for w in ("w0", "w1", "w5", "w6", "W1", "w", "ww")]
        out += ["20239", "2023 9", "2023091", "202309w10", "2023w1", "w1"]
    return out


def defect_class(t, s):
    if s == "":
        return "empty"
    if any(ord(c) > 127 and c.isdigit() for c in s):
        return "non-ascii-digit"
    if "_" in s:
        return "underscore"
    if " " in s or "\t" in s or "\n" in s:
        return "blank"
    if "+" in s:
        return "plus-sign"
    if t in NUMERIC and ("e" in s or "E" in s):
        return "exponent"
    if t in LAYOUT:
        digits = sum(c.isdigit() for c in s)
        if "." in s:
            return "fraction-digits-or-range"
        return "layout-or-range" if digits else "other"
    return "other"


class Judge:
    def __init__(self, acc):
        self.acc = acc
        self.counts = {}

    def one(self, field, ftype, s, origin):
        verdict = L.classify(ftype, s, tag=field.tag)
        try:
            with warnings.catch_warnings():
                warnings.simplefilter("ignore")
                r = field.validate_value(s)
            got = "accepted" if r is True else f"returned {r!r}"
        except FIXMessageError:
            got = "rejected"
        except BaseException as e:  # noqa
            got = "raised " + type(e).__name__
        case = {"ftype": ftype, "tag": field.tag, "name": field.name, "value": s, "origin": origin}
        case.update(getattr(self, "extra_case", {}))
        t = ftype.upper()
        if got.startswith("raised") or got.startswith("returned"):
            self.acc.violation(f"C19:non-message-error/{t}/{got.split()[-1]}/{defect_class(t, s)}",
                               f"{field!r}.validate_value({s!r}) {got} (oracle: {verdict})", case)
        elif verdict == "A" and got != "accepted":
            self.acc.violation(f"C19:rejects-member/{t}", f"{field!r} rejects {s!r}, a member of the {t} lexical space", case)
        elif verdict == "R" and got != "rejected":
            self.acc.violation(f"C19:accepts-outside/{t}/{defect_class(t, s)}", f"{field!r} accepts {s!r}, which is outside the {t} lexical space", case)
        k = (t, verdict)
        self.counts[k] = self.counts.get(k, 0) + 1
        nt = verdict != "F"
        self.acc.case((t, field.tag, s) if nt else None, cls=[f"type={t}", f"oracle={verdict}"],
                      sample={"type": t, "field": field.name, "value": s, "oracle": verdict, "library": got}
                      if nt and len(self.acc.samples) < 8 and len(s) > 2 and (self.acc.evaluations % 997 == 0) else None)
        return got


def representative_fields():
    """[(dict, SchemaField fetched from the real FIXSchema)] one per type per dictionary, + synthetic."""
    out = []
    seen_types = set()
    for d in DICTS:
        path = os.path.join(SRC, d)
        ref = Dictionary(path)
        with warnings.catch_warnings():
            warnings.simplefilter("ignore")
            sch = FIXSchema(path)
        per = {}
        for f in sorted(ref.fields.values(), key=lambda f: int(f.tag)):
            if f.enums:
                continue
            t = f.ftype.upper()
            if t not in per or (t in ("SEQNUM",) and f.tag == "16"):
                per.setdefault(t, []).append(f)
            elif t == "SEQNUM" and f.tag == "16":
                per[t].append(f)
        for t, fs in per.items():
            for f in fs[:1] + [x for x in fs[1:] if x.tag == "16"]:
                out.append((d, sch[f.tag]))
                seen_types.add(t)
    for t in sorted(L.KNOWN):
        out.append(("synthetic", SchemaField(tag="20001", name="Synthetic" + t, ftype=t)))
    return out


def type_shard(acc, ftype):
    """All representative fields of one datatype: exhaustive short strings + layout edits."""
    j = Judge(acc)
    t = ftype
    for origin, field in representative_fields():
        if field.ftype.upper() != t:
            continue
        j.one(field, t, "", origin)
        if t in NUMERIC or t in TEXTUAL or t in L.UNCHECKED:
            alpha = NUM_ALPHA if t in NUMERIC else TXT_ALPHA
            for n in (1, 2, 3, 4):
                for tup in itertools.product(alpha, repeat=n):
                    j.one(field, t, "".join(tup), origin)
            for s in L.must_accept_samples(t):
                j.one(field, t, s, origin)
        if t in NUMERIC:
            for s in ["32", "31", "00", "-0", "2147483648", "99999999999999999999", "1" * 400, "1" * 308, "1" * 309, "9" * 310, "-" + "1" * 309, "0" * 4301, "0" * 5000, "0" * 4400 + "7", "-" + "0" * 4301, "1" * 4301, "1" * 309 + ".5", "0." + "0" * 400 + "1", "0.1", "1.0", "1e5", "1E5", "0x10", "1_000", "٣", "１２", "1.", ".5", "-.5",
                      "--1", "1-", "-", ".", "inf", "nan", "-inf", "Infinity", "NaN", " 1", "1 ", "\t1", "1\n", "+1", "1,000", "1.5.5", "1..5"]:
                j.one(field, t, s, origin)
        if t in LAYOUT:
            for tpl in TEMPLATES[t]:
                j.one(field, t, tpl, origin)
                for pos in range(len(tpl)):
                    j.one(field, t, tpl[:pos] + tpl[pos + 1:], origin)
                    for c in EDIT_ALPHA:
                        if c != tpl[pos]:
                            j.one(field, t, tpl[:pos] + c + tpl[pos + 1:], origin)
                for pos in range(len(tpl) + 1):
                    for c in EDIT_ALPHA:
                        j.one(field, t, tpl[:pos] + c + tpl[pos:], origin)
            for s in boundaries(t):
                j.one(field, t, s, origin)
    acc.extra.setdefault("oracle_counts", {})
    for (tt, v), n in j.counts.items():
        acc.extra["oracle_counts"][f"{tt}/{v}"] = n


def cross_shard(acc):
    """One process, every pooled string offered to the fields of EVERY datatype (string-major, then type-major in reverse
    order, then string-major again): the verdict must be a function of (datatype, value), not of what was validated before."""
    reps = representative_fields()
    pool = []
    for t in sorted(LAYOUT):
        pool += list(TEMPLATES[t]) + list(boundaries(t))
    for t in sorted(L.KNOWN):
        pool += list(L.must_accept_samples(t))[:6]
    pool += ["1", "0", "-1", "31", "32", "Y", "N", "USD", "1.5", "202309", "20230921", "202309w1", "10:11:12", "20230921-10:11:12", "20230921-10:11:12.123"]
    pool = list(dict.fromkeys(pool))
    first = {}
    rounds = [[(s, of) for s in pool for of in reps], [(s, of) for of in reversed(reps) for s in reversed(pool)], [(s, of) for s in pool for of in reps]]
    for rno, rnd in enumerate(rounds):
        j = Judge(acc)
        j.extra_case = {"cross": True}
        for s, (origin, field) in rnd:
            t = field.ftype.upper()
            got = j.one(field, t, s, f"cross-round-{rno}")
            k = (origin, field.tag, t, s)
            if k in first and first[k] != got:
                acc.violation(f"C19:verdict-depends-on-history/{t}", f"{field!r}.validate_value({s!r}) was {first[k]} in an earlier round and is {got} now", {"cross": True, "ftype": t, "value": s})
            first.setdefault(k, got)
    acc.klass("cross-type-pool")
    acc.extra["cross_pool_size"] = len(pool)


def enum_shard(acc):
    """Every enumerated field of both dictionaries: all enumerators + near misses."""
    j = 0
    for d in DICTS:
        path = os.path.join(SRC, d)
        ref = Dictionary(path)
        with warnings.catch_warnings():
            warnings.simplefilter("ignore")
            sch = FIXSchema(path)
        for f in sorted(ref.fields.values(), key=lambda f: int(f.tag)):
            if not f.enums:
                continue
            field = sch[f.tag]
            enums = set(f.enums)
            cands = set(enums)
            for e in f.enums:
                cands.update([e.lower(), e.upper(), e.swapcase(), " " + e, e + " ", e[:-1], e + e, e + "0", e + " " + e])
            cands.add("")
            cands.update(["0", "Z", "zz", "~", "10", "100", "-1"])
            for s in sorted(cands):
                exp = s in enums
                if f.ftype.upper() in ("MULTIPLEVALUESTRING", "MULTIPLESTRINGVALUE") and not exp and s and all(tok in enums for tok in s.split(" ")):
                    acc.case(None, cls="enum/multi-value-FREE")
                    continue
                try:
                    with warnings.catch_warnings():
                        warnings.simplefilter("ignore")
                        r = field.validate_value(s)
                    got = "accepted" if r is True else f"returned {r!r}"
                except FIXMessageError:
                    got = "rejected"
                except BaseException as e:  # noqa
                    got = "raised " + type(e).__name__
                case = {"enum_field": f.name, "tag": f.tag, "value": s, "dict": d}
                if got.startswith("raised") or got.startswith("returned"):
                    acc.violation(f"C19:non-message-error/ENUM/{got.split()[-1]}/{'empty' if not s else 'other'}", f"{field!r}.validate_value({s!r}) {got}", case)
                elif exp and got != "accepted":
                    acc.violation("C19:enum/rejects-enumerator", f"{field!r} rejects its enumerator {s!r}", case)
                elif not exp and got != "rejected":
                    acc.violation("C19:enum/accepts-non-enumerator", f"{field!r} accepts {s!r}, not one of {sorted(enums)[:12]}", case)
                j += 1
                acc.case(("enum", d, f.tag, s), cls=["enum", "enum/member" if exp else "enum/near-miss"],
                         sample={"enum_field": f.name, "value": s, "member": exp, "library": got} if j % 2503 == 0 and len(acc.samples) < 8 else None)


# ------------------------------------------------------------------ generated longer values
def _members(t):
    digits = st.text("0123456789", min_size=1, max_size=18)
    if t == "INT":
        return st.builds(lambda s, d: s + d, st.sampled_from(["", "-"]), digits)
    if t in ("SEQNUM", "NUMINGROUP"):
        return st.integers(1, 10**15).map(str)
    if t == "DAYOFMONTH":
        return st.integers(1, 31).map(str)
    if t in L.FLOATS:
        return st.builds(lambda s, a, b: s + a + b, st.sampled_from(["", "-"]), digits, st.one_of(st.just(""), st.just("."), digits.map(lambda x: "." + x)))
    if t == "UTCTIMESTAMP":
        return st.builds(lambda y, mo, d, h, mi, s, f: f"{y:04d}{mo:02d}{d:02d}-{h:02d}:{mi:02d}:{s:02d}{f}", st.integers(1, 9999), st.integers(1, 12), st.integers(1, 28),
                         st.integers(0, 23), st.integers(0, 59), st.integers(0, 59), st.one_of(st.just(""), st.integers(0, 999).map(lambda x: ".%03d" % x)))
    if t == "UTCTIMEONLY":
        return st.builds(lambda h, mi, s, f: f"{h:02d}:{mi:02d}:{s:02d}{f}", st.integers(0, 23), st.integers(0, 59), st.integers(0, 59),
                         st.one_of(st.just(""), st.integers(0, 999).map(lambda x: ".%03d" % x)))
    if t in ("UTCDATEONLY", "LOCALMKTDATE"):
        return st.builds(lambda y, mo, d: f"{y:04d}{mo:02d}{d:02d}", st.integers(1, 9999), st.integers(1, 12), st.integers(1, 28))
    if t == "MONTHYEAR":
        return st.builds(lambda y, mo, x: f"{y:04d}{mo:02d}{x}", st.integers(1, 9999), st.integers(1, 12),
                         st.one_of(st.just(""), st.integers(1, 28).map(lambda d: "%02d" % d), st.integers(1, 5).map(lambda w: "w%d" % w)))
    if t == "STRING":
        return st.text(st.characters(min_codepoint=32, max_codepoint=126, blacklist_characters="="), min_size=1, max_size=40)
    if t == "CHAR":
        return st.characters(min_codepoint=33, max_codepoint=126, blacklist_characters="=")
    if t == "BOOLEAN":
        return st.sampled_from(["Y", "N"])
    if t in ("COUNTRY", "CURRENCY", "EXCHANGE"):
        n = {"COUNTRY": 2, "CURRENCY": 3, "EXCHANGE": 4}[t]
        return st.text(L._UP, min_size=n, max_size=n)
    return st.sampled_from(L.must_accept_samples(t))


MUT = ["0", "9", "-", "+", ".", "_", " ", "e", "E", "٣", "１", ":", "w", "\x01", "=", "a", "Z", "\n", "\x00"]


@st.composite
def gen_value(draw, types):
    t = draw(st.sampled_from(types))
    s = draw(_members(t))
    k = draw(st.integers(0, 3))
    if k == 1 and s:
        p = draw(st.integers(0, len(s) - 1))
        s = s[:p] + draw(st.sampled_from(MUT)) + s[p + 1:]
    elif k == 2:
        p = draw(st.integers(0, len(s)))
        s = s[:p] + draw(st.sampled_from(MUT)) + s[p:]
    elif k == 3 and s:
        p = draw(st.integers(0, len(s) - 1))
        s = s[:p] + s[p + 1:]
    return t, s


def hyp_shard(acc, n, seed):
    reps = {}
    for origin, f in representative_fields():
        reps.setdefault(f.ftype.upper(), []).append((origin, f))
    types = sorted(t for t in reps if t in NUMERIC | TEXTUAL | LAYOUT)
    j = Judge(acc)
    cnt = [0]

    def one(x):
        t, s = x
        for origin, f in reps[t]:
            j.one(f, t, s, "generated")
        # ... and (every third value) to one field of every other datatype: a member of one lexical space is a near-miss of its neighbours
        cnt[0] += 1
        if cnt[0] % 3:
            return
        for t2 in types:
            if t2 != t:
                origin, f = reps[t2][0]
                j.one(f, t2, s, "generated-for-" + t)

    run_given(gen_value(types), one, n, seed)


def EXHAUSTIVE(tier):
    return False


def plan(tier, seed):
    types = sorted({f.ftype.upper() for _, f in representative_fields()})
    jobs = [("type_shard", {"ftype": t}) for t in types]
    jobs.append(("enum_shard", {}))
    jobs.append(("cross_shard", {}))
    n, k = (1500, 4) if tier == "quick" else (150000, 16)
    jobs += [("hyp_shard", {"n": n, "seed": derive_seed(seed, PROPERTY, i)}) for i in range(k)]
    return jobs


def replay(acc, case):
    if case.get("cross"):
        cross_shard(acc)  # history-dependent by nature: the whole (seed-independent) shard is the reproduction
        return
    if "enum_field" in case:
        path = os.path.join(SRC, case["dict"])
        with warnings.catch_warnings():
            warnings.simplefilter("ignore")
            field = FIXSchema(path)[case["tag"]]
        enums = set(Dictionary(path).by_tag[case["tag"]].enums)
        s = case["value"]
        try:
            field.validate_value(s)
            got = "accepted"
        except FIXMessageError:
            got = "rejected"
        except BaseException as e:  # noqa
            acc.violation(f"C19:non-message-error/ENUM/{type(e).__name__}/{'empty' if not s else 'other'}", f"raised {type(e).__name__}", case)
            return
        if (s in enums) != (got == "accepted"):
            acc.violation("C19:enum/" + ("rejects-enumerator" if s in enums else "accepts-non-enumerator"), f"{field!r} {got} {s!r}", case)
        return
    if case["origin"] in DICTS:
        with warnings.catch_warnings():
            warnings.simplefilter("ignore")
            field = FIXSchema(os.path.join(SRC, case["origin"]))[case["tag"]]
    else:
        field = SchemaField(tag=case["tag"], name=case["name"], ftype=case["ftype"])
    Judge(acc).one(field, case["ftype"].upper(), case["value"], case["origin"])
