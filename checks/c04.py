"""C04 - inbound application messages are delivered in order, once, never past a gap."""
import itertools

from hypothesis import strategies as st

from vlib.hyp import run_given
from vlib.reffix import ref_get
from vlib.runner import derive_seed
from vlib.sess import Bench

PROPERTY = "C04"
LEVEL = "exploration"
LEN = {"quick": (2, 3), "thorough": (3, 4)}


def RULE(tier):
    a, b = LEN[tier]
    return (
        "A real endpoint (acceptor and initiator; counters starting at 1 or just below 10 / 100 / 1000) brought by real traffic to ACTIVE, to RESENDREQ_AWAITING through a "
        "mid-session gap and through a Logon numbered too high, then fed a history of reference-encoded frames from a "
        "counterparty with correct CompIDs: type in {application (MsgType rotating over D, 8, j, AE, a custom type and the session-level Reject 3), Heartbeat, TestRequest, ResendRequest, "
        "SequenceReset-GapFill, SequenceReset-Reset} x MsgSeqNum in {E-2, E-1, E, E+1, E+5} x PossDupFlag in {absent, Y} x "
        f"(for resets) NewSeqNo in {{E-1, E+1, E+4}}: EXHAUSTIVELY all histories of length <= {a} over the full 100-symbol "
        f"alphabet and of length {b} over a 28-symbol reduction (which also holds four garbled SequenceResets: NewSeqNo absent, not a number, absent on a GapFill - the expected number may then move by one at most, never to the frame's own number), plus Hypothesis histories up to 12 (quick) / 40 (thorough), plus long histories (one gap followed by 300 frames above E; 14 gaps each closed by a GapFill; "
        "counters crossing 9, 99, 999, 9999, 999999999, 2^31, 10^18 and ending at 2^63-1). "
        "Reference model = one integer E, an awaiting flag and a watermark. Per frame: on_message is called iff the frame is "
        "an application message numbered exactly E; next_num_in moves by one per accepted frame or to NewSeqNo of an "
        "honoured forward reset and never otherwise; a frame above E outside a resend wait produces exactly one "
        "ResendRequest with BeginSeqNo=E, none otherwise. Non-trivial = history with a frame above or below E or a "
        "SequenceReset; distinct by (role, start, history)."
    )


ASSUMPTIONS = [
    "FREE: EndSeqNo of the ResendRequest; E' in {E, E+1} for a non-forward GapFill/Reset numbered exactly E; SequenceReset-Reset whose own number differs "
    "from E (only: nothing delivered, E' in {E, NewSeqNo}); whether a too-low PossDup frame disconnects; outbound effects of inbound ResendRequests (C06)",
    "a history ends when the endpoint disconnects (too-low number outside a resend wait)",
]
TYPES = ["APP", "HB", "TR", "RR", "GF", "RS"]
# MsgTypes of the "application" symbol, rotated: orders, reports, business reject, a custom type and the session-level
# Reject (3), which the library hands to on_message like any other (that it does is FREE; that it does so once, in order, is not)
APP_TYPES = ["D", "8", "D", "j", "UX", "3", "D", "AE"]
OFFS = [-2, -1, 0, 1, 5]
NEWS = [-1, 1, 4]
ROLES = ["acceptor", "initiator"]
STARTS = ["active", "awaiting-mid", "awaiting-logon"]


def full_alphabet():
    out = []
    for t in TYPES:
        for off in OFFS:
            for pd in (False, True):
                if t in ("GF", "RS"):
                    for nw in NEWS:
                        out.append((t, off, pd, nw))
                else:
                    out.append((t, off, pd, 0))
    return out


def reduced_alphabet():
    return [("APP", 0, False, 0), ("APP", 1, False, 0), ("APP", -1, True, 0), ("APP", -1, False, 0), ("APP", 5, False, 0), ("APP", 0, True, 0),
            ("HB", 0, False, 0), ("HB", 1, False, 0), ("TR", 0, False, 0), ("TR", 5, False, 0), ("RR", 0, False, 0), ("RR", 1, False, 0),
            ("GF", 0, True, 4), ("GF", 0, False, 1), ("GF", 1, True, 4), ("GF", 5, True, 4), ("GF", -1, True, 4), ("GF", 0, True, -1),
            ("RS", 0, False, 4), ("RS", 0, False, -1), ("RS", 1, False, 4), ("RS", -2, False, 4), ("HB", -1, True, 0), ("APP", -2, True, 0),
            # garbled SequenceReset: NewSeqNo absent / not a number / absent on a GapFill
            ("RX", 0, False, -1), ("RX", -2, False, -1), ("RX", 1, False, 1), ("RX", -1, False, 4)]


class Model:
    def __init__(self, E, awaiting, W):
        self.E, self.awaiting, self.W = E, awaiting, W


def run_history(acc, role, start, hist, origin, counters=None):
    # the expected inbound number starts below a digit-count boundary for part of the histories (9 -> 10, 99 -> 100, 999 -> 1000)
    n0 = (1, 1, 8, 97, 998, 1)[(len(hist) + sum(len(str(x)) for x in hist[:1])) % 6] if hist else 1
    if counters:
        b = Bench(role, start, next_in=counters[0], next_out=counters[1])
    else:
        b = Bench(role, start, next_in=n0, next_out=(1, 9, 99)[len(hist) % 3])
    case = {"role": role, "start": start, "hist": [list(s) for s in hist], "counters": list(counters) if counters else None}
    flags = set()

    def bad(sig, detail):
        acc.violation("C04:" + sig, detail + f" | role={role} start={start} hist={hist}", case)

    try:
        # the start states are reached through in-domain traffic (a clean Logon; one frame above E): failing
        # to reach them is itself a verdict of the model (no gap -> no ResendRequest; gap -> exactly one)
        rr0 = [1 for x in b.all_written() if b"\x0135=2\x01" in x]
        if start == "active" and (b.state.name != "ACTIVE" or rr0):
            bad("setup/clean-logon-not-active", f"after a clean Logon exchange the endpoint is {b.state!r} and wrote {len(rr0)} ResendRequest(s)")
            acc.case(None, cls="setup-failed")
            return
        if start != "active" and (b.state.name != "RESENDREQ_AWAITING" or len(rr0) != 1):
            bad("setup/gap-not-awaiting", f"after one frame above the expected number the endpoint is {b.state!r} and wrote {len(rr0)} ResendRequest(s)")
            acc.case(None, cls="setup-failed")
            return
        m = Model(b.E, start != "active", b.ep._max_seq_num_resend if start != "active" else 0)
        uid = 0
        for step_i, (t, off, pd, nw) in enumerate(hist):
            E = m.E
            n = max(E + off, 1)
            off = n - E
            uid += 1
            new = max(E + nw, 1)
            apptype = APP_TYPES[(uid + len(hist)) % len(APP_TYPES)]
            if t == "APP":
                fr = b.frame(apptype, n, [(11, f"id{uid}"), (58, f"payload-{uid}")], possdup=pd)
                flags.add(f"app-type={apptype}")
            elif t == "HB":
                fr = b.frame("0", n, [], possdup=pd)
            elif t == "TR":
                fr = b.frame("1", n, [(112, f"T{uid}")], possdup=pd)
            elif t == "RR":
                fr = b.frame("2", n, [(7, 1), (16, 1)], possdup=pd)
            elif t == "GF":
                fr = b.frame("4", n, [(123, "Y"), (36, new)], possdup=pd)
            elif t == "RX":
                # a SequenceReset that names no usable NewSeqNo: field absent (Reset mode), not a number, absent on a GapFill
                fr = b.frame("4", n, {-1: [], 1: [(36, "abc")], 4: [(123, "Y")]}.get(nw, [(123, "N")]), possdup=pd)
                flags.add("seqreset-garbled")
            else:
                fr = b.frame("4", n, [(36, new)] if uid % 2 else [(123, "N"), (36, new)], possdup=pd)
            if off != 0:
                flags.add("above-E" if off > 0 else "below-E")
            if t in ("GF", "RS"):
                flags.add("seqreset")
            b.mark()
            b.feed(fr)
            deliv = b.delivered()
            E2 = b.E
            rrs = [p for _, p in b.written() if ref_get(p, 35) == "2"]
            disc = b.disconnected()
            where = f"step {step_i} {t} n=E{off:+d}{' possdup' if pd else ''}" + (f" NewSeqNo=E{new - E:+d}" if t in ("GF", "RS") else "") + f" (E={E}, awaiting={m.awaiting})"
            free_reset = (t == "RS" and off != 0) or (t == "RX" and off != 0 and nw != 4)
            # ---- R1 delivery
            should = t == "APP" and off == 0
            if deliv and not should:
                kind = "dup/awaiting/low" if (off < 0 and m.awaiting) else ("above-E" if off > 0 else ("low" if off < 0 else "non-app"))
                bad(f"R1-{kind}", f"{where}: on_message called for a frame that is not the expected application message ({len(deliv)} calls)")
            elif should and not disc and len(deliv) > 1:
                bad("R1-delivered-twice", f"{where}: application message numbered exactly E produced {len(deliv)} on_message calls")
            elif should and apptype == "3" and not deliv:
                acc.klass("session-reject-not-handed-to-application-FREE")
            elif should and not disc and len(deliv) != 1:
                bad("R1-expected-not-delivered", f"{where}: application message numbered exactly E produced {len(deliv)} on_message calls")
            elif should and deliv and deliv[0].get(11, None) != f"id{uid}":
                bad("R1-wrong-message", f"{where}: delivered {deliv[0]!r}")
            if disc:
                # too-low outside a resend wait (or any other session-level reason): history ends here
                if off > 0 and not m.awaiting and not free_reset and not rrs:
                    bad(f"R3-missing-resendrequest/disconnected-instead/{t}", f"{where}: a frame above the expected number outside a resend wait must trigger a ResendRequest; the endpoint disconnected without one")
                if off >= 0 and not (t in ("GF", "RS")):
                    acc.klass("disconnected-unexpectedly-FREE")
                acc.klass("ended-by-disconnect")
                break
            # ---- R2 counter
            if t in ("APP", "HB", "TR", "RR"):
                exp = {E + 1} if off == 0 else {E}
            elif t == "GF":
                if off == 0:
                    exp = {new} if new > E else {E, E + 1}
                else:
                    exp = {E}
            elif t == "RX":
                # no NewSeqNo to move to: the number may only move by one, and only if the frame was the expected one
                exp = {E, E + 1} if off == 0 else {E}
            else:  # RS
                if off == 0:
                    exp = {new} if new > E else {E, E + 1}
                else:
                    exp = {E, new} if new >= E else {E}
            if E2 not in exp:
                if t == "RX":
                    bad("R2-garbled-reset-moved-counter", f"{where}: a SequenceReset without a usable NewSeqNo moved the expected number {E} -> {E2}")
                elif t == "RS" and E2 < E:
                    bad("R2-backward-reset", f"{where}: SequenceReset-Reset lowered the expected number {E} -> {E2}")
                elif t == "GF" and off > 0:
                    bad("R2-gapfill-above-E", f"{where}: GapFill numbered above E was honoured: {E} -> {E2}")
                elif E2 < E:
                    bad("R2-lowered", f"{where}: expected number lowered {E} -> {E2}")
                else:
                    bad(f"R2-counter/{t}", f"{where}: next_num_in {E} -> {E2}, allowed {sorted(exp)}")
            # ---- R3 resend requests
            if not free_reset:
                want = 1 if (off > 0 and not m.awaiting) else 0
                if len(rrs) != want:
                    bad(f"R3-{'missing' if want else 'unexpected'}-resendrequest/{t}", f"{where}: {len(rrs)} ResendRequest(s) written, expected {want}")
                elif want and ref_get(rrs[0], 7) != str(E):
                    bad("R3-beginseqno", f"{where}: ResendRequest BeginSeqNo={ref_get(rrs[0], 7)} expected {E}")
                if want:
                    m.awaiting, m.W = True, n
            else:
                # FREE: follow the implementation
                if rrs:
                    m.awaiting, m.W = True, n
            # follow (so that one defect does not cascade) and update the awaiting flag
            m.E = E2
            if m.awaiting and E2 - 1 >= m.W and E2 != E:
                m.awaiting = False
        bf = b.bad_frames()
        if bf:
            bad("wire-malformed", f"endpoint wrote a malformed frame: {bf[0]}")
    finally:
        b.close()
    nt = bool(flags)
    acc.case((role, start, tuple(hist)) if nt else None, cls=[f"origin={origin}", f"start={start}", f"role={role}"] + sorted(flags),
             sample={"role": role, "start": start, "hist": [list(s) for s in hist]} if nt and len(acc.samples) < 4 and len(hist) >= 3 and origin == "hyp" else None)


def exhaustive(acc, role, start, length, reduced, part, parts):
    alpha = reduced_alphabet() if reduced else full_alphabet()
    k = 0
    for L in ([length] if reduced else range(1, length + 1)):
        for hist in itertools.product(alpha, repeat=L):
            k += 1
            if k % parts != part:
                continue
            run_history(acc, role, start, list(hist), "exhaustive")


sym = st.tuples(st.sampled_from(TYPES + ["RX"]), st.sampled_from(OFFS), st.booleans(), st.sampled_from(NEWS))
sym_biased = st.one_of(sym, st.sampled_from(reduced_alphabet()), st.just(("APP", 0, False, 0)), st.just(("APP", 0, True, 0)))


def hyp_shard(acc, n, seed, maxlen):
    strat = st.tuples(st.sampled_from(ROLES), st.sampled_from(STARTS), st.lists(sym_biased, min_size=2, max_size=maxlen))
    run_given(strat, lambda x: run_history(acc, x[0], x[1], [(t, o, p, (w if t in ("GF", "RS", "RX") else 0)) for t, o, p, w in x[2]], "hyp"), n, seed)


def EXHAUSTIVE(tier):
    return False


def long_histories(acc):
    """Histories far longer than the exhaustive bound: one gap followed by 300 frames above the expected number (exactly one
    ResendRequest), 14 separate gaps each requested once and closed by a GapFill, in-sequence traffic across the 9 / 99 / 999 /
    999999999 / 2^31 / 10^18 counter boundaries."""
    A = ("APP", 0, False, 0)
    for role in ROLES:
        run_history(acc, role, "active", [("APP", 1, False, 0)] + [("APP", 5, False, 0), ("HB", 2, False, 0), ("APP", 1, True, 0)] * 100 + [("GF", 0, True, 9), A, A], "long")
        run_history(acc, role, "active", ([("APP", 1, False, 0), ("GF", 0, True, 2), A, ("HB", 0, False, 0)]) * 14 + [A], "long")
        for n in (8, 98, 998, 9998, 999999998, 2**31 - 2, 10**18 - 2, 2**63 - 8):
            run_history(acc, role, "active", [A, A, ("HB", 0, False, 0), A, ("APP", 1, False, 0), ("GF", 0, True, 3), A, A], "long", counters=(n, 5))
    acc.klass("long-histories")


def plan(tier, seed):
    a, b = LEN[tier]
    jobs = []
    for role in ROLES:
        for start in STARTS:
            parts = 2 if tier == "quick" else 16
            jobs += [("exhaustive", {"role": role, "start": start, "length": a, "reduced": False, "part": i, "parts": parts}) for i in range(parts)]
            parts = 2 if tier == "quick" else 8
            jobs += [("exhaustive", {"role": role, "start": start, "length": b, "reduced": True, "part": i, "parts": parts}) for i in range(parts)]
    jobs.append(("long_histories", {}))
    n, k, ml = (400, 8, 12) if tier == "quick" else (8000, 12, 40)
    jobs += [("hyp_shard", {"n": n, "seed": derive_seed(seed, PROPERTY, i), "maxlen": ml}) for i in range(k)]
    return jobs


def replay(acc, case):
    run_history(acc, case["role"], case["start"], [tuple(s) for s in case["hist"]], "replay", counters=tuple(case["counters"]) if case.get("counters") else None)
