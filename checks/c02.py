"""C02 - every frame put on the wire is a well-formed FIX frame."""
import copy

from hypothesis import strategies as st

import asyncfix.codec as _codec
from asyncfix.codec import Codec
from asyncfix.message import MessageDirection
from asyncfix.protocol import FIXProtocol44
from asyncfix.session import FIXSession
from checks import c05 as C05
from checks import c06 as C06
from vlib import codec_gen as G
from vlib.hyp import run_given
from vlib.reffix import reassemble, ref_check_frame, ref_get, ref_parse
from vlib.runner import Acc, derive_seed
from vlib.sess import Bench

PROPERTY = "C02"
LEVEL = "exploration"
RULE = (
    "(a) Input level: the C01 message generator (every group of the table, look-alike values, all modes), plus the same "
    "messages with a non-ASCII character (Latin-1 letter, Cyrillic, CJK, emoji, NBSP, combining mark) inserted into a body "
    "value, a group member value (also in a late item of a group of 10..300 items) or late (offset 79..299) in a long value: Codec.encode output (ASCII inputs) and the exact bytes a real logged-on "
    "connection (both roles) hands to writer.write through send_msg are checked by the independent reference framer "
    "(BeginString, BodyLength, MsgType first and in order; three-digit CheckSum last; BodyLength = byte count; CheckSum = byte "
    "sum mod 256); plus, seed-independent: a non-ASCII character in every plain tag of the tag enum in turn, the same message object "
    "sent again after a nested group member was made non-ASCII, and non-ASCII CompIDs. A message that cannot be framed must be refused: exception, nothing written, no journal row, outbound "
    "counter unchanged; an ASCII message must not be refused. (b) History level: every frame written by the endpoint in "
    "generated session histories (C05's operation lists: logon, sends of all classes, test requests, peer ResendRequests with "
    "replays and gap fills, gaps, logouts on too-low numbers, breaks and reconnects; C06's journals x resend ranges; heartbeat "
    "/ test-request traffic in virtual time). Non-trivial = frame with a group or a non-ASCII input, or a frame emitted by "
    "the library itself during a history; distinct by frame bytes / input signature."
)
ASSUMPTIONS = [
    "vlib/reffix.py (written from the FIX 4.4 session text, shares no code with codec.py) is the independent FIX parser",
    "FREE: what Codec.encode returns for non-ASCII input when called directly (pinned tests fix that); field order after the three leading fields",
]
NONASCII = ["\u00e9", "\u00df", "\u0416", "\u540d", "\U0001F600", "\u00a0", "e\u0301", "\u20ac", "\u00ff", "\u2028"]


def inject(body, pick, ch):
    """Copy of body with ch inserted into the pick-th value (depth-first)."""
    body = copy.deepcopy(body)
    slots = []

    def walk(entries):
        for i, e in enumerate(entries):
            if e[0] == "f":
                slots.append((entries, i))
            else:
                for it in e[2]:
                    walk(it)
    walk(body)
    if not slots:
        body.append(("f", "58", ch))
        return body
    entries, i = slots[pick % len(slots)]
    v = entries[i][2]
    k = pick % (len(v) + 1)
    entries[i] = ("f", entries[i][1], v[:k] + ch + v[k:])
    return body


class SendBench:
    def __init__(self, role):
        self.b = Bench(role, "active", next_out=3, next_in=5)
        self.n = 0

    def fresh_if_needed(self, role):
        if self.b.disconnected() or self.n > 400:
            self.b.close()
            self.__init__(role)


def judge_send(acc, sb, role, case, nonascii):
    b = sb.b
    ep = b.ep
    msg, _ = G.build_message(case)
    w = b.link.writers[b.side]
    w0, n0 = len(w.written), ep._session.next_num_out
    rows0 = len(list(ep._journaler.recover_messages(ep._session, MessageDirection.OUTBOUND, 0, 2**62)))
    r = b.w.call(ep.send_msg(msg))
    sb.n += 1
    w1, n1 = len(w.written), ep._session.next_num_out
    rows1 = len(list(ep._journaler.recover_messages(ep._session, MessageDirection.OUTBOUND, 0, 2**62)))
    tag = "non-ascii" if nonascii else "ascii"

    def bad(sig, detail):
        acc.violation(f"C02:{sig}", detail + f" | type={case['msgtype']} {tag}", dict(case, role=role, nonascii=nonascii))

    frames = reassemble([x for _, x in w.written[w0:]])
    for fr in frames:
        why = ref_check_frame(fr)
        if why:
            bad(f"send/malformed-frame/{tag}/{why.split(':')[0]}", f"send_msg handed a malformed frame to the transport: {why}; frame={fr[:200]!r}")
    if r[0] == "exc":
        if not nonascii:
            bad(f"send/ascii-refused/{type(r[1]).__name__}", f"send_msg refused a representable message: {type(r[1]).__name__}: {r[1]}")
        if frames:
            bad("send/refused-but-written", f"send_msg raised {type(r[1]).__name__} after writing {len(frames)} frame(s)")
        if n1 != n0:
            bad("send/refused-but-number-consumed", f"send_msg raised {type(r[1]).__name__}; next_num_out {n0} -> {n1}")
        if rows1 != rows0:
            bad("send/refused-but-journaled", f"send_msg raised {type(r[1]).__name__}; journal rows {rows0} -> {rows1}")
    elif r[0] == "ok":
        if len(frames) != 1:
            bad("send/frame-count", f"{len(frames)} frames written for one send")
        elif not nonascii:
            # the frame must carry the message: same type, body values present
            p = ref_parse(frames[0])
            if ref_get(p, 35) != case["msgtype"]:
                bad("send/msgtype", f"35={ref_get(p, 35)!r}")


def send_shard(acc, n, seed, role):
    sb = SendBench(role)
    strat = st.tuples(G.message_case(True, 6), st.integers(0, 10**6), st.sampled_from(NONASCII), st.integers(0, 3))
    cnt = [0]

    def one(x):
        case, pick, ch, mode = x
        case = dict(case)
        if case["mode"] != "normal" or case["msgtype"] in ("1",):
            case["mode"] = "normal"
            if case["msgtype"] in ("4", "1"):
                case["msgtype"] = "D"
        sb.fresh_if_needed(role)
        nonascii = mode != 0
        if mode == 3:
            # a long value (top level or inside a group item) whose only non-ASCII character sits late in it
            n = [79, 80, 81, 100, 150, 299][pick % 6]
            long_v = ("x" * n) + ch + ("y" * (pick % 3))
            body = copy.deepcopy(case["body"])
            groups = [e for e in body if e[0] == "g"]
            if groups and pick % 2:
                it = groups[pick % len(groups)][2][0]
                it[0] = ("f", it[0][1], long_v)
            else:
                body.append(("f", "58" if not any(e[1] == "58" for e in body) else "5001", long_v))
            case["body"] = body
        elif nonascii:
            case["body"] = inject(case["body"], pick, ch)
        judge_send(acc, sb, role, case, nonascii)
        cnt[0] += 1
        nt = G.has_group(case["body"]) or nonascii
        acc.case(("send", role, repr(G.structure_sig(case)), pick if nonascii else -1, ch if nonascii else "") if nt else None,
                 cls=[f"send/{role}", "non-ascii-input" if nonascii else "ascii-input"] + (["has-group"] if G.has_group(case["body"]) else []),
                 sample={"role": role, "msgtype": case["msgtype"], "non_ascii": ch if nonascii else None, "body": repr(case["body"])[:200]}
                 if nt and nonascii and len(acc.samples) < 3 and len(repr(case["body"])) < 200 else None)

    try:
        run_given(strat, one, n, seed)
    finally:
        sb.b.close()


def special_shard(acc, role):
    """Seed-independent corners of the refusal: (1) a non-ASCII character in EVERY plain tag of the tag enum in turn (a
    refusal that depends on how single tags are rendered must not have blind spots), top level and inside a group item;
    (2) the same message OBJECT sent again after a nested group member was changed to non-ASCII; (3) non-ASCII CompIDs."""
    from asyncfix import FMsg
    from asyncfix.journaler import Journaler
    from asyncfix.message import FIXMessage
    from vlib.simnet import World

    sb = SendBench(role)
    try:
        for i, tag in enumerate(G.PLAIN_TAGS + ["5001", "20001"]):
            sb.fresh_if_needed(role)
            ch = NONASCII[i % len(NONASCII)]
            case = {"msgtype": "D", "mode": "normal", "body": [("f", "11", f"t{i}"), ("f", tag, "v" + ch)] if tag != "11" else [("f", "11", "v" + ch)],
                    "sender": "CLI", "target": "SRV", "next_out": 1, "carried": 1}
            judge_send(acc, sb, role, case, True)
            acc.case(("tag-sweep", role, tag), cls=["send/tag-sweep", "non-ascii-input"])
        # (1b) large groups (10 .. 300 items) whose only non-ASCII character sits in a late item
        for n in (10, 17, 33, 40, 100, 300):
            for pos in (n - 1, n // 2, 0):
                sb.fresh_if_needed(role)
                items = [[("f", "448", f"p{i}" + ("\u00e9" if i == pos else "")), ("f", "447", "D")] for i in range(n)]
                case = {"msgtype": "D", "mode": "normal", "body": [("f", "11", f"g{n}"), ("g", "453", items), ("f", "58", "after")],
                        "sender": "CLI", "target": "SRV", "next_out": 1, "carried": 1}
                judge_send(acc, sb, role, case, True)
                acc.case(("big-group", role, n, pos), cls=["send/big-group", "non-ascii-input"])
            sb.fresh_if_needed(role)
            case = {"msgtype": "D", "mode": "normal", "body": [("f", "11", f"g{n}"), ("g", "453", [[("f", "448", f"p{i}"), ("f", "447", "D")] for i in range(n)])],
                    "sender": "CLI", "target": "SRV", "next_out": 1, "carried": 1}
            judge_send(acc, sb, role, case, False)
        # (2) mutate-and-resend the same object
        for k, (gtag, members) in enumerate([("453", ["448", "447", "452"]), ("555", ["600", "624"]), ("78", ["79", "80"])]):
            for depth in (0, 1):
                sb.fresh_if_needed(role)
                b = sb.b
                ep = b.ep
                msg = FIXMessage(FMsg.NEWORDERSINGLE, {11: f"m{k}{depth}", 55: "SYM"})
                msg.set_group(gtag, [{members[0]: "a", members[1]: "b"}, {members[0]: "c", members[1]: "d"}])
                if depth:
                    msg.get_group_list(gtag)[1].set_group("802", [{"523": "inner", "803": "1"}])
                w = b.link.writers[b.side]
                r1 = b.w.call(ep.send_msg(msg))
                str(msg), repr(msg)
                if depth:
                    msg.get_group_list(gtag)[1].get_group_list("802")[0].set("523", "inn\u00e9r", replace=True)
                else:
                    msg.get_group_list(gtag)[1].set(members[1], "d\u00e9", replace=True)
                w0, n0 = len(w.written), ep._session.next_num_out
                r2 = b.w.call(ep.send_msg(msg))
                case = {"resend_object": gtag, "depth": depth, "role": role}
                frames = reassemble([x for _, x in w.written[w0:]])
                for fr in frames:
                    why = ref_check_frame(fr)
                    if why:
                        acc.violation(f"C02:send/malformed-frame/non-ascii/{why.split(':')[0]}/object-resent-after-mutation",
                                      f"the message object was sent once, a nested group member was then set to a non-ASCII value and the object sent again: {why}; frame={fr[:200]!r}", case)
                if r2[0] == "exc" and (frames or ep._session.next_num_out != n0):
                    acc.violation("C02:send/refused-but-written", f"second send raised {type(r2[1]).__name__} but wrote {len(frames)} frame(s) / moved the counter", case)
                acc.case(("resend-object", role, gtag, depth), cls=["send/object-resent-after-mutation", "non-ascii-input"])
    finally:
        sb.b.close()
    # (3) CompIDs
    # letters, an ideograph, and non-ASCII characters that are NOT printable (their repr() is an ASCII escape): NBSP, zero-width
    # space, BOM, soft hyphen, a C1 control
    for sender, target in (("CL\u00cd", "SRV"), ("CLI", "SR\u00dc"), ("\u540d", "SRV"), ("CLI\u00a0", "SRV"), ("CLI", "\u200bSRV"), ("\ufeffCLI", "SRV"),
                           ("CL\u00adI", "SRV"), ("CLI", "SRV\u0085")):
        w = World()
        try:
            if role == "initiator":
                ep = w.make_client(journal=Journaler(), sender=sender, target=target)
                w.connect_client()
                side = "c"
            else:
                ep = w.make_server(journal=Journaler(), sender=sender, target=target)
                w.attach_server_only()
                side = "s"
            wr = w.link.writers[side]
            n0 = ep._session.next_num_out
            r = w.call(ep.send_msg(FIXMessage(FMsg.LOGON, {98: 0, 108: 30})))
            case = {"compids": [sender, target], "role": role}
            frames = reassemble([x for _, x in wr.written])
            for fr in frames:
                why = ref_check_frame(fr)
                if why:
                    acc.violation(f"C02:send/malformed-frame/non-ascii-compid/{why.split(':')[0]}", f"CompIDs {sender!r}/{target!r}: {why}; frame={fr[:200]!r}", case)
            if r[0] == "exc" and (frames and not all(ref_check_frame(f) is None for f in frames)):
                pass
            if r[0] == "exc" and ep._session.next_num_out != n0 and not frames:
                acc.violation("C02:send/refused-but-number-consumed", f"CompIDs {sender!r}/{target!r}: send raised {type(r[1]).__name__}, next_num_out {n0} -> {ep._session.next_num_out}", case)
            acc.case(("compid", role, sender, target), cls=["send/non-ascii-compid", "non-ascii-input"])
        finally:
            w.close()


class _FixedDT(__import__("datetime").datetime):
    @classmethod
    def utcnow(cls):
        return cls(2023, 5, 6, 7, 8, 9, 123000)


def encode_shard(acc, n, seed):
    """Codec.encode itself, ASCII inputs, every mode."""
    saved = _codec.datetime
    _codec.datetime = _FixedDT
    codec = Codec(FIXProtocol44())

    def one(case):
        sess = FIXSession(1, case["target"], case["sender"])
        sess.next_num_out = case["next_out"]
        sess.next_num_in = 1
        msg, _ = G.build_message(case)
        try:
            text = codec.encode(msg, sess, raw_seq_num=(case["mode"] == "raw"))
            wire = text.encode("ascii")
        except Exception as e:
            acc.violation(f"C02:encode/raises/{type(e).__name__}", f"encode of an ASCII message raised {type(e).__name__}: {e}", dict(case))
            acc.case(None, cls="encode")
            return
        why = ref_check_frame(wire)
        if why and not (why.startswith("field: empty value")):
            acc.violation(f"C02:encode/malformed-frame/{why.split(':')[0]}", f"{why}; frame={wire[:300]!r}", dict(case))
        nt = G.has_group(case["body"]) or case["mode"] != "normal"
        acc.case(("encode", repr(G.structure_sig(case))) if nt else None, cls=["encode", f"mode={case['mode']}"])

    try:
        for c in G.sweep_cases():
            one(c)
        run_given(G.message_case(True, 8), one, n, seed)
    finally:
        _codec.datetime = saved


def history_shard(acc, n, seed, maxlen):
    """Frames written during generated session histories (C05's generator)."""
    sink = Acc()
    seen = [0]

    def hook(fr, step):
        seen[0] += 1
        why = ref_check_frame(fr)
        p = ref_parse(fr)
        lib = not step.startswith("op#") or "('send'" not in step
        if why:
            acc.violation(f"C02:history/malformed-frame/{why.split(':')[0]}/{ref_get(p, 35)}", f"{step}: {why}; frame={fr[:300]!r}", {"history_frame": fr, "step": step})
        acc.case(fr if lib else None, cls=["history-frame", f"history/35={ref_get(p, 35)}"] + (["history/library-initiated"] if lib else []),
                 sample={"history_step": step[:80], "frame": fr.decode("latin-1")[:160]} if lib and len(acc.samples) < 6 and ref_get(p, 35) in ("4", "2", "5") else None)

    run_given(C05.history, lambda x: C05.run_history(sink, x[0], x[1], x[2], x[3], x[4], maxlen, frame_hook=hook), n, seed)
    for role, no, ni, lf, ops in C05.FIXED:
        C05.run_history(sink, role, no, ni, lf, ops, 100, frame_hook=hook)


def resend_shard(acc, seed):
    """Frames written while serving ResendRequests (C06's driver) and by the heartbeat task in virtual time."""
    import itertools

    for role in ("acceptor", "initiator"):
        for slots in itertools.product(["app", "appg", "hb", "declined", "hole-skip"], repeat=3):
            d = C06.Driver(role, "active")
            try:
                for s in slots:
                    d.add_slot(s)
                L = d.ep._session.next_num_out - 1
                for bq, eq in ((1, 0), (2, L), (2, 3), (L, 0), (1, 2)):
                    d.b.feed(d.b.frame("2", d.ep._session.next_num_in, [(7, bq), (16, eq)]))
                for fr in d.b.all_written():
                    why = ref_check_frame(fr)
                    p = ref_parse(fr)
                    if why:
                        acc.violation(f"C02:history/malformed-frame/{why.split(':')[0]}/{ref_get(p, 35)}", f"resend reply: {why}; frame={fr[:300]!r}", {"history_frame": fr, "step": "resend"})
                    acc.case(fr, cls=["history-frame", "history/resend-reply", f"history/35={ref_get(p, 35)}"])
            finally:
                d.b.close()
    # heartbeat / test request traffic
    for role in ("acceptor", "initiator"):
        for hb in (1, 5, 30):
            b = Bench(role, "active", hb=hb)
            try:
                b.w.advance(hb * 1.2)
                b.feed(b.frame("1", b.E, [(112, "PING é".encode("latin-1", "replace").decode("latin-1"))]))
                b.w.advance(hb * 4)
                for fr in b.all_written():
                    why = ref_check_frame(fr)
                    p = ref_parse(fr)
                    if why:
                        acc.violation(f"C02:history/malformed-frame/{why.split(':')[0]}/{ref_get(p, 35)}", f"heartbeat traffic: {why}; frame={fr[:300]!r}", {"history_frame": fr, "step": "heartbeat"})
                    acc.case(fr, cls=["history-frame", "history/heartbeat-task", f"history/35={ref_get(p, 35)}"])
            finally:
                b.close()


def plan(tier, seed):
    th = tier == "thorough"
    jobs = []
    for role in ("acceptor", "initiator"):
        for i in range(2 if not th else 6):
            jobs.append(("send_shard", {"n": 700 if not th else 12000, "seed": derive_seed(seed, PROPERTY, "send", role, i), "role": role}))
    for i in range(2 if not th else 4):
        jobs.append(("encode_shard", {"n": 600 if not th else 15000, "seed": derive_seed(seed, PROPERTY, "enc", i)}))
    for i in range(3 if not th else 8):
        jobs.append(("history_shard", {"n": 100 if not th else 3000, "seed": derive_seed(seed, PROPERTY, "hist", i), "maxlen": 25 if not th else 60}))
    jobs.append(("resend_shard", {"seed": seed}))
    jobs += [("special_shard", {"role": r}) for r in ("acceptor", "initiator")]
    return jobs


def _retuple(body):
    return [tuple(e[:2]) + ((e[2],) if e[0] == "f" else ([_retuple(i) for i in e[2]],)) for e in body]


def replay(acc, case):
    if "resend_object" in case or "compids" in case:
        special_shard(acc, case["role"])
        return
    if "history_frame" in case:
        why = ref_check_frame(case["history_frame"])
        if why:
            acc.violation("C02:history/malformed-frame/replayed", why, case)
        return
    case = dict(case)
    case["body"] = _retuple(case["body"])
    role = case.pop("role", "acceptor")
    nonascii = case.pop("nonascii", False)
    sb = SendBench(role)
    try:
        judge_send(acc, sb, role, case, nonascii)
    finally:
        sb.b.close()
