"""C09 - restarting an endpoint is transparent to the session.

The C07 two-endpoint machine with one endpoint's journal on a file, extended with restart actions:
graceful (at an idle point: tasks cancelled, sqlite connection closed without commit, a new connection object built
on the same file) and kill at a crash point inside an operation.  A kill is realised without unwinding the library:
the operation (a send by X, or the processing of one inbound frame by X) runs to its end with a recorder armed at
every crash point (before/after each sqlite statement and commit, before/after writer.write, at drain); the world
"as process death at point p leaves it" is then assembled from what was recorded AT p: the on-disk journal files,
the frames that had reached the transport, the messages the application had been given.
"""
import os
import shutil
import tempfile

from hypothesis import strategies as st

from asyncfix.connection import ConnectionState
from asyncfix.journaler import Journaler
from vlib import crashdb
from vlib.duo import Duo, quiesce
from vlib.hyp import run_given
from vlib.reffix import ref_get, ref_parse
from vlib.runner import derive_seed
from vlib.simnet import EOF

PROPERTY = "C09"
LEVEL = "fault_enumeration"
RULE = (
    "Two real endpoints over the simulated link, the restarted one (client or server) with a file-backed journal. Histories "
    "(Hypothesis, <=30 actions quick / <=80 thorough, plus fixed ones) of: application sends either way, delivery of single "
    "frames (singly, or a burst of 45 coalesced into 4096-byte reads and killed in the middle), keep-alive probes (TestRequest / Heartbeat), application handlers that call disconnect() from inside on_message, connection breaks (also a drain that fails after the frame was written) and reconnects (so that gaps, ResendRequests, replays and gap fills spanning several numbers "
    "occur), graceful restarts at idle points, and kills at a crash point of an operation of the restarted endpoint (a send, or "
    "the processing of one inbound frame). For 30 fixed histories EVERY crash point of the chosen operation is taken "
    "(exhaustive kill-point enumeration); generated histories draw the point. Oracle: (a) graceful: the new object's "
    "next_num_in / next_num_out equal the old object's live values; (b) kill: each restored counter lies between the old "
    "object's value when the operation started and its value when it ended; (c) after reconnect, Logon and closure nothing is lost or duplicated (the message "
    "in flight at kill time may arrive once or twice / once or never), both ends ACTIVE with matching counters, and over the "
    "whole run no two non-PossDup frames of the restarted sender that left the process carry the same MsgSeqNum with different "
    "bodies; (d) after a graceful restart with nothing in flight no ResendRequest appears - also when the session was ended by a Logout (sent by either side, read by the other) before the restart. Non-trivial = restart after "
    "application traffic both ways with a gap fill in the history or a kill point inside a send; distinct by (history, point)."
)
ASSUMPTIONS = [
    "kill = what os._exit leaves: on-disk sqlite files as of the crash point (rollback journal honoured on reopen), frames handed to the transport before the point, nothing after",
    "FREE: which side of an in-flight atomic step survives; whether the message being sent / processed at kill time is delivered (at most once more)",
    "same trust as C07 / C08: frame-boundary breaks, sqlite atomic commit, no crash points inside sqlite's C code",
]


class Rec:
    """Crash-point recorder for one operation of endpoint X."""

    def __init__(self, duo, side, path, tmpdir):
        self.d, self.side, self.path, self.tmp = duo, side, path, tmpdir
        self.points = []

    def snap(self, label):
        ep = self.d.ep[self.side]
        k = len(self.points)
        img = os.path.join(self.tmp, f"p{k}.db")
        for suf in ("", "-journal", "-wal", "-shm"):
            if os.path.exists(self.path + suf):
                shutil.copyfile(self.path + suf, img + suf)
        link = self.d.w.link
        self.points.append({
            "label": label, "img": img, "fifo": len(link.fifo[self.side]) if link is not None else 0,
            "app": len(ep.app_msgs), "in": ep._session.next_num_in, "out": ep._session.next_num_out,
            "accepted": len(self.d.accepted[self.side]), "alive": link.alive if link is not None else False,
        })


class Runner:
    def __init__(self, acc, side, tmpdir):
        self.acc = acc
        self.side = side
        self.tmp = tmpdir
        self.gen = 0
        self.path = os.path.join(tmpdir, "x0.db")
        for suf in ("", "-journal", "-wal", "-shm"):
            if os.path.exists(self.path + suf):
                os.unlink(self.path + suf)
        crashdb.install()
        crashdb.CTL.reset()
        crashdb.CTL.enabled = False
        j = Journaler(self.path)
        self.d = Duo(cj=j if side == "c" else None, sj=j if side == "s" else None)
        self.old_delivered = []  # payloads the restarted side's application received in earlier incarnations
        self.maybe_dup = set()  # payloads that were being processed at a kill
        self.left = []  # frames of the restarted sender that left the process (all incarnations, in order)
        self._left_pos = {}
        self.flags = set()
        self.restarts = 0

    # ------------------------------------------------------------------ bookkeeping
    def note_left(self, upto=None):
        """Frames written by X on the current link that count as having left the process."""
        link = self.d.w.link
        if link is None:
            return
        wr = link.writers[self.side].written
        k0 = self._left_pos.get(id(link), 0)
        k1 = len(wr) if upto is None else upto
        for _, fr in wr[k0:k1]:
            self.left.append(fr)
        self._left_pos[id(link)] = max(k0, k1) if upto is None else 10**9  # after a kill nothing more leaves on this link

    def all_delivered(self, to):
        if to == self.side:
            return self.old_delivered + self.d.delivered(to)
        return self.d.delivered(to)

    # ------------------------------------------------------------------ restart machinery
    def _drop_old(self, new_file):
        d, side = self.d, self.side
        old = d.ep[side]
        for t in (old._aio_task_socket_read, old._aio_task_heartbeat):
            if t is not None:
                t.cancel()
        d.w.idle()
        j = old._journaler
        try:
            j.cursor.close()
            j.conn.close()  # no commit: what process exit does
        except Exception:
            pass
        from vlib.simnet import _DeadJournal

        j.__class__ = _DeadJournal
        if d.w.link is not None and d.w.link.alive:
            d.w.link.break_("eof")
            d.w.idle()
        if old._socket_writer is not None:
            old._socket_writer = None
            old._socket_reader = None
        nj = Journaler(new_file)
        if side == "c":
            d.w.client = None
            new = d.w.make_client(journal=nj, hb=d.hb)
            d.c = new
        else:
            d.w.server = None
            d.w._accept_cb = None
            new = d.w.make_server(journal=nj, hb=d.hb)
            d.s = new
        d.ep[side] = new
        self.restarts += 1
        return old, new

    def graceful(self, bad):
        d, side = self.d, self.side
        old = d.ep[side]
        self.note_left()
        self.old_delivered += d.delivered(side)
        inflight = bool(d.link_alive() and (d.fifo("c") or d.fifo("s")))
        live = (old._session.next_num_in, old._session.next_num_out)
        was_active = old.connection_state == ConnectionState.ACTIVE and d.ep[d.other(side)].connection_state == ConnectionState.ACTIVE
        peer = d.ep[d.other(side)]
        in_sync = was_active and not inflight and old._session.next_num_in == peer._session.next_num_out and old._session.next_num_out == peer._session.next_num_in
        _, new = self._drop_old(self.path)
        got = (new._session.next_num_in, new._session.next_num_out)
        if got != live:
            bad("graceful/counters", f"old object held in/out {live}, the object rebuilt on the same journal holds {got}")
        self.flags.add("graceful-restart")
        return in_sync

    def kill_in_op(self, op, pick, bad, all_points=False):
        """op: ('send',) by X or ('deliver',) of the next frame to X. Runs it with the recorder armed; returns the
        recorder so that the caller can assemble any crash point."""
        d, side = self.d, self.side
        rec = Rec(d, side, self.path, self.tmp)
        C = crashdb.CTL
        link = d.w.link
        wr = link.writers[side] if link is not None else None
        ep = d.ep[side]
        before = (ep._session.next_num_in, ep._session.next_num_out)
        rec.snap("op-start")
        C.reset()
        C.hook = lambda count, opi, kind, label: rec.snap("sql:" + label)
        if wr is not None:
            wr.on_write = lambda data, when: rec.snap("write:" + when)
            wr.on_drain = lambda: rec.snap("drain")
        C.enabled = True
        pid = None
        inflight_payload = None
        try:
            if op[0] == "send":
                r, pid = d.send(side)
                self.flags.add("kill-in-send")
            elif op[0] == "deliver_all":
                # everything in flight arrives coalesced (reads of up to 4096 bytes): a burst processed frame after frame
                frm = d.other(side)
                rec.burst = [ref_get(ref_parse(x), 11) for x in d.w.link.fifo[frm] if x is not EOF]
                rec.app0 = len(ep.app_msgs)
                d.deliver_all(frm)
                self.flags.add("kill-in-burst")
            else:
                frm = d.other(side)
                item = d.w.link.fifo[frm][0]
                if item is not EOF:
                    inflight_payload = ref_get(ref_parse(item), 11)
                d.deliver(frm)
                self.flags.add("kill-in-receive")
        finally:
            C.enabled = False
            C.hook = None
            if wr is not None:
                wr.on_write = None
                wr.on_drain = None
        rec.snap("op-end")
        after = (ep._session.next_num_in, ep._session.next_num_out)
        rec.before, rec.after, rec.pid, rec.inflight = before, after, pid, inflight_payload
        rec.link, rec.written_before = link, None
        return rec

    def crash_at(self, rec, k, bad):
        """Assembles the world as process death at point k of the recorded operation leaves it."""
        d, side = self.d, self.side
        p = rec.points[k]
        link = rec.link
        # frames written after the point never left the process
        if link is not None:
            fifo = link.fifo[side]
            while len(fifo) > p["fifo"]:
                fifo.pop()
            written_cut = len(link.writers[side].written) - 0
        # what the application had been given / what had been accepted
        ep = d.ep[side]
        self.old_delivered += [m.get(11, "?") for m in ep.app_msgs[:p["app"]]]
        ep.app_msgs[:] = []
        acc_list = d.accepted[side]
        for extra in acc_list[p["accepted"]:]:
            d.maybe[side].add(extra)
        del acc_list[p["accepted"]:]
        if rec.pid is not None and rec.pid not in acc_list:
            d.maybe[side].add(rec.pid)
        if rec.inflight:
            self.maybe_dup.add(rec.inflight)
        if getattr(rec, "burst", None):
            # of a burst, only the frame in progress at the kill (handed to the application, not yet journaled - or the next
            # one) may legitimately be seen again by the restarted application
            done = [x for x in rec.burst if x is not None]
            i = p["app"] - rec.app0
            for j in (i - 1, i):
                if 0 <= j < len(done):
                    self.maybe_dup.add(done[j])
        # frames that left: those in the (truncated) FIFO history -> count via written list up to the number recorded
        if link is not None:
            wr = link.writers[side].written
            # number of frames written at point k = frames written before op + (fifo growth is not usable after deliveries), so recount:
            n_left = rec.written0 + max(0, p["fifo"] - rec.fifo0) if link.alive or True else 0
            self.note_left(upto=n_left)
        newfile = os.path.join(self.tmp, f"x{self.restarts + 1}.db")
        for suf in ("", "-journal", "-wal", "-shm"):
            if os.path.exists(newfile + suf):
                os.unlink(newfile + suf)
            if os.path.exists(p["img"] + suf):
                shutil.copyfile(p["img"] + suf, newfile + suf)
        self.path = newfile
        _, new = self._drop_old(newfile)
        got = (new._session.next_num_in, new._session.next_num_out)
        lo_in, hi_in = sorted((rec.before[0], rec.after[0]))
        lo_out, hi_out = sorted((rec.before[1], rec.after[1]))
        # (a kill between two commits of one inbound operation may leave a durable value the live object never held -
        #  e.g. the reset frame journaled under its own number before NewSeqNo is stored; only the range is asserted,
        #  what matters afterwards is clause (c))
        if not (lo_in <= got[0] <= hi_in):
            bad(f"kill/inbound-counter/{p['label']}", f"kill at point {k} ({p['label']}): restored next_num_in={got[0]}, the old object held {rec.before[0]} before and {rec.after[0]} after the operation")
        if not (lo_out <= got[1] <= hi_out):
            bad(f"kill/outbound-counter/{p['label']}", f"kill at point {k} ({p['label']}): restored next_num_out={got[1]}, the old object held {rec.before[1]} before and {rec.after[1]} after the operation")
        return new


def judge_closure(r, bad):
    d, side = r.d, r.side
    n, capped = quiesce(d)
    r.note_left()
    if capped:
        bad("closure/endless-chatter", f"endpoints still exchange frames after {n} deliveries")
        return
    for to in ("c", "s"):
        frm = d.other(to)
        got_all = r.all_delivered(to)
        exp = d.accepted[frm]
        got = [p for p in got_all if p not in d.maybe[frm]]
        # a payload that was being processed at a kill may have been given to both incarnations
        dedup = []
        for p in got:
            if p in r.maybe_dup and p in dedup:
                continue
            dedup.append(p)
        if dedup != exp:
            lost = [p for p in exp if p not in dedup]
            dup = sorted({p for p in dedup if dedup.count(p) > 1})
            what = "lost" if lost else ("duplicated" if dup else "reordered")
            bad(f"closure/{what}/{'restarted-side-receives' if to == side else 'peer-receives'}",
                f"side {to} received {got_all}, accepted sends of the other side {exp} (lost {lost}, duplicated {dup}); maybe={sorted(d.maybe[frm])} in-flight-at-kill={sorted(r.maybe_dup)}")
    if d.c.connection_state != ConnectionState.ACTIVE or d.s.connection_state != ConnectionState.ACTIVE:
        bad("closure/not-active", f"after closure c={d.c.connection_state.name} s={d.s.connection_state.name}")
    elif d.c._session.next_num_in != d.s._session.next_num_out or d.s._session.next_num_in != d.c._session.next_num_out:
        bad("closure/counters", f"c in/out {d.c._session.next_num_in}/{d.c._session.next_num_out}, s in/out {d.s._session.next_num_in}/{d.s._session.next_num_out}")
    # number reuse by the restarted sender
    seen = {}
    for fr in r.left:
        p = ref_parse(fr)
        if ref_get(p, 43) == "Y" or ref_get(p, 35) == "4":
            continue
        n = ref_get(p, 34)
        body = [x for x in p if x[0] not in ("8", "9", "10", "52")]
        if n in seen and seen[n] != body:
            bad("number-reused-for-different-message", f"MsgSeqNum {n} left the restarted endpoint twice with different content: {seen[n]} and {body}")
            break
        seen.setdefault(n, body)
    for why, fr in d.check_frames():
        bad("wire-malformed", f"{why}: {fr[:160]!r}")


def run_history(acc, side, actions, origin, kill_all=None):
    """actions: list of ('send', s) | ('deliver', s) | ('break', kind) | ('reconnect',) | ('graceful',) | ('kill', 'send'|'deliver', pick)
    kill_all: index of the kill action for which EVERY crash point is taken (the history is re-run per point)."""
    tmp = tempfile.mkdtemp(prefix="verif_c09_", dir="/dev/shm" if os.path.isdir("/dev/shm") else None)
    try:
        npoints = _run_once(acc, side, actions, origin, tmp, None if kill_all is None else (kill_all, 0))
        if kill_all is not None and npoints:
            stride = 1 if npoints <= 60 else 7  # a burst has hundreds of crash points: every 7th (all residues of the per-frame cycle over the frames)
            for k in range(1, npoints, stride):
                _run_once(acc, side, actions, origin, tmp, (kill_all, k))
    finally:
        shutil.rmtree(tmp, ignore_errors=True)
        crashdb.CTL.enabled = False


def _run_once(acc, side, actions, origin, tmp, forced):
    r = Runner(acc, side, tmp)
    d = r.d
    case = {"side": side, "actions": [list(a) for a in actions], "forced": list(forced) if forced else None}
    npoints = 0
    killed_at = None

    def bad(sig, detail):
        acc.violation("C09:" + sig, detail + f" | side={side} actions={actions} forced={forced}", case)

    try:
        no_resend_expected_from = None
        logout_sync = False
        for i, a in enumerate(actions):
            k = a[0]
            if k == "send":
                d.send(a[1])
            elif k == "deliver":
                if d.can_deliver(a[1]):
                    d.deliver(a[1])
            elif k == "armd":
                d.ep[a[1]].disconnect_next += 1
                r.flags.add("handler-disconnects")
            elif k == "testreq":
                if d.connected(a[1]) and d.link_alive():
                    d.send_test_req(a[1])
                    r.flags.add("keep-alive-traffic")
            elif k == "break":
                if d.link_alive():
                    r.note_left()
                    d.brk(a[1])
            elif k == "reconnect":
                if d.can_reconnect():
                    d.reconnect()
            elif k == "logout":
                # the graceful end of a session: a Logout by one side, read by the other
                if d.connected(a[1]) and d.link_alive():
                    c_, s_ = d.ep["c"], d.ep["s"]
                    logout_sync = (c_.connection_state == ConnectionState.ACTIVE and s_.connection_state == ConnectionState.ACTIVE
                                   and not (d.fifo("c") or d.fifo("s"))
                                   and c_._session.next_num_in == s_._session.next_num_out and c_._session.next_num_out == s_._session.next_num_in)
                    d.logout(a[1])
                    while d.can_deliver(a[1]):
                        d.deliver(a[1])
                    r.flags.add("logout-exchange")
            elif k == "graceful":
                if logout_sync and not any(isinstance(x, (bytes, bytearray)) for q in ("c", "s") for x in d.fifo(q)):
                    # both sides were in sync, one said Logout, the other read it: nothing is lost, whoever is restarted now
                    r.graceful(bad)
                    no_resend_expected_from = len(d.w.links)
                    logout_sync = False
                    r.flags.add("graceful-after-logout")
                    continue
                if d.ep[side]._socket_writer is not None and d.w.link is not None and (d.fifo("c") or d.fifo("s")):
                    r.flags.add("graceful-with-frames-in-flight")
                in_sync = r.graceful(bad)
                if in_sync:
                    no_resend_expected_from = len(d.w.links)
            elif k == "kill":
                op = a[1]
                if op in ("deliver", "deliver_all") and not d.can_deliver(d.other(side)):
                    continue
                if op == "send" and d.w.link is None:
                    continue
                link = d.w.link
                rec_fifo0 = len(link.fifo[side]) if link is not None else 0
                rec_written0 = len(link.writers[side].written) if link is not None else 0
                r.note_left()
                rec = r.kill_in_op((op,), a[2], bad)
                rec.fifo0, rec.written0 = rec_fifo0, rec_written0
                npoints = len(rec.points)
                kk = forced[1] if (forced and forced[0] == i) else a[2] % npoints
                killed_at = rec.points[kk]["label"]
                r.crash_at(rec, kk, bad)
        judge_closure(r, bad)
        if no_resend_expected_from is not None:
            rr = 0
            for link in d.w.links[no_resend_expected_from:no_resend_expected_from + 1]:
                for s_ in ("c", "s"):
                    rr += sum(1 for _, fr in link.writers[s_].written if b"\x0135=2\x01" in fr)
            if rr and r.restarts == 1 and not any(x[0] in ("kill", "break") for x in actions):
                bad("graceful/needless-resendrequest", f"{rr} ResendRequest(s) after a graceful restart in sync with nothing in flight")
        gapfill = any(b"\x0135=4\x01" in fr for link in d.w.links for s_ in ("c", "s") for _, fr in link.writers[s_].written)
        both_ways = bool(d.accepted["c"]) and bool(d.accepted["s"])
        nt = r.restarts > 0 and both_ways and (gapfill or "kill-in-send" in r.flags)
        acc.case((side, tuple(actions), forced) if nt else None,
                 cls=[f"origin={origin}", f"side={side}"] + sorted(r.flags) + (["gapfill-in-history"] if gapfill else []) + ([f"killed-at={killed_at.split(':')[0]}"] if killed_at else []),
                 sample={"side": side, "actions": [list(a) for a in actions][:16], "killed_at": killed_at, "crash_points_in_op": npoints} if nt and len(acc.samples) < 5 and killed_at else None)
        acc.extra["restarts"] = acc.extra.get("restarts", 0) + r.restarts
        return npoints
    finally:
        crashdb.CTL.enabled = False
        d.close()


# ------------------------------------------------------------------ generation
KINDS = ["eof", "reset", "oserror", "drain"]
act = st.one_of(
    st.tuples(st.just("send"), st.sampled_from(["c", "s"])),
    st.tuples(st.just("send"), st.sampled_from(["c", "s"])),
    st.tuples(st.just("deliver"), st.sampled_from(["c", "s"])),
    st.tuples(st.just("deliver"), st.sampled_from(["c", "s"])),
    st.tuples(st.just("deliver"), st.sampled_from(["c", "s"])),
    st.tuples(st.just("break"), st.sampled_from(KINDS)),
    st.tuples(st.just("testreq"), st.sampled_from(["c", "s"])),
    st.tuples(st.just("armd"), st.sampled_from(["c", "s"])),
    st.tuples(st.just("reconnect")),
    st.tuples(st.just("reconnect")),
    st.tuples(st.just("graceful")),
    st.tuples(st.just("logout"), st.sampled_from(["c", "s"])),
    st.tuples(st.just("kill"), st.sampled_from(["send", "deliver", "deliver"]), st.integers(0, 200)),
)
WARM = [("deliver", "c"), ("deliver", "s"), ("send", "c"), ("send", "s"), ("deliver", "c"), ("deliver", "s")]


def hyp_shard(acc, n, seed, maxlen):
    strat = st.tuples(st.sampled_from(["c", "s"]), st.booleans(), st.lists(act, min_size=4, max_size=maxlen))
    run_given(strat, lambda x: run_history(acc, x[0], (WARM if x[1] else []) + x[2], "hyp"), n, seed)


def fixed_histories():
    H = []
    base = WARM
    lossy = base + [("send", "c"), ("send", "s"), ("break", "eof"), ("reconnect",), ("deliver", "c"), ("deliver", "s")]
    for side in ("c", "s"):
        o = "s" if side == "c" else "c"
        H.append((side, base + [("kill", "send", 0)]))
        H.append((side, base + [("send", o), ("kill", "deliver", 0)]))
        H.append((side, lossy + [("kill", "deliver", 0)]))  # processing the peer's Logon / ResendRequest
        H.append((side, lossy + [("deliver", side), ("deliver", o), ("kill", "deliver", 0)]))
        H.append((side, lossy + [("deliver", "c"), ("deliver", "s"), ("deliver", "c"), ("deliver", "s"), ("kill", "send", 0)]))
        H.append((side, base + [("send", side), ("send", side), ("break", "reset"), ("reconnect",), ("deliver", "c"), ("deliver", "s"), ("deliver", "c"), ("kill", "deliver", 0)]))
        H.append((side, [("kill", "deliver", 0)]))  # the very first Logon / Logon reply
        H.append((side, base + [("graceful",)]))
        # a burst larger than one read (45 messages, > 4096 bytes) processed in one go; the process dies in the middle of it
        H.append((side, base + [("send", o)] * 45 + [("kill", "deliver_all", 0)]))
        # the application ends the connection from inside on_message, then the endpoint is restarted
        H.append((side, base + [("send", o), ("armd", side), ("deliver", o), ("graceful",)]))
        H.append((side, base + [("send", o), ("send", o), ("armd", side), ("deliver", o), ("reconnect",), ("deliver", "c"), ("deliver", "s"), ("graceful",)]))
        # an idle session: keep-alives are the last traffic before the restart
        H.append((side, base + [("testreq", o), ("deliver", o), ("deliver", side), ("graceful",)]))
        H.append((side, base + [("testreq", side), ("deliver", side), ("deliver", o), ("testreq", o), ("deliver", o), ("kill", "deliver", 0)]))
        H.append((side, lossy + [("graceful",)]))
        # the session is ended with a Logout (by the restarted side, by the other side), then the endpoint is restarted
        H.append((side, base + [("logout", side), ("graceful",)]))
        H.append((side, base + [("logout", o), ("graceful",)]))
        H.append((side, base + [("send", o), ("deliver", o), ("send", side), ("deliver", side), ("logout", o), ("graceful",)]))
        H.append((side, base + [("graceful",), ("reconnect",), ("deliver", "c"), ("deliver", "s"), ("send", "c"), ("send", "s"), ("graceful",)]))
        H.append((side, base + [("send", o), ("send", o), ("deliver", o), ("kill", "deliver", 0), ("reconnect",), ("deliver", "c"), ("deliver", "s"), ("kill", "send", 0)]))
        H.append((side, base + [("kill", "send", 0), ("reconnect",), ("deliver", "c"), ("deliver", "s"), ("deliver", "c"), ("deliver", "s"), ("send", side), ("kill", "send", 0)]))
        H.append((side, lossy + [("deliver", "c"), ("deliver", "s"), ("deliver", "c"), ("deliver", "s"), ("deliver", "c"), ("deliver", "s"), ("send", o), ("kill", "deliver", 0)]))
        H.append((side, base + [("send", side), ("break", "eof"), ("reconnect",), ("kill", "deliver", 0)]))
        H.append((side, base + [("send", o), ("send", side), ("break", "oserror"), ("reconnect",), ("deliver", "c"), ("deliver", "s"), ("deliver", "c"), ("deliver", "s"), ("kill", "deliver", 0)]))
    return H


def fixed(acc, part, parts):
    for i, (side, actions) in enumerate(fixed_histories()):
        if i % parts != part:
            continue
        kills = [j for j, a in enumerate(actions) if a[0] == "kill"]
        if kills:
            run_history(acc, side, actions, "fixed-all-points", kill_all=kills[-1])
        else:
            run_history(acc, side, actions, "fixed")
    acc.klass("fixed-shard")


def EXHAUSTIVE(tier):
    return False


def plan(tier, seed):
    jobs = [("fixed", {"part": i, "parts": 6}) for i in range(6)]
    n, k, ml = (300, 10, 30) if tier == "quick" else (4000, 10, 80)
    jobs += [("hyp_shard", {"n": n, "seed": derive_seed(seed, PROPERTY, i), "maxlen": ml}) for i in range(k)]
    return jobs


def replay(acc, case):
    tmp = tempfile.mkdtemp(prefix="verif_c09_", dir="/dev/shm" if os.path.isdir("/dev/shm") else None)
    try:
        _run_once(acc, case["side"], [tuple(a) for a in case["actions"]], "replay", tmp, tuple(case["forced"]) if case.get("forced") else None)
    finally:
        shutil.rmtree(tmp, ignore_errors=True)
