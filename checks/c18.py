"""C18 - message containers behave as ordered tag maps with strict duplicate rules.

Hypothesis-generated operation histories interpreted against a real FIXMessage and a
list-of-pairs reference model; full structural comparison after every operation.
"""
import copy
import enum
import pickle

from hypothesis import strategies as st

from asyncfix import FMsg, FTag
from asyncfix.errors import (
    DuplicatedTagError,
    FIXMessageError,
    TagNotFoundError,
    UnmappedRepeatedGrpError,
)
from asyncfix.message import FIXContainer, FIXMessage
from asyncfix.protocol.common import FOrdSide, FOrdStatus
from vlib.hyp import run_given
from vlib.runner import derive_seed

PROPERTY = "C18"
LEVEL = "exploration"
RULE = (
    "Hypothesis lists (<=30 ops quick, <=60 thorough) over set / set(replace) / []= / del / get (with and "
    "without default) / [] / in / is_group / add_group (dict or container; index -1, 0, middle, past the end) "
    "/ set_group / get_group_list / get_group_by_index / get_group_by_tag (also with (tag, value) taken from the content, and items sharing a value) / query / items / == (against an "
    "independently rebuilt equal container, single-change near misses incl. rendering look-alikes, plain "
    "dicts with and without the four framing tags) / pickle round trip / constructor from dict with lists / "
    "non-integer tags; tags from a colliding pool spelled as int, decimal str and FTag member; values str "
    "(printable incl. '|', '=', '=>', empty), int, float, library enums, a plain enum.Enum; nested groups. "
    "Real container vs list-of-pairs model, full structural comparison after every op. Non-trivial = "
    "history touching >=1 group and >=1 refused operation; distinct by the op list."
)
ASSUMPTIONS = [
    "canonical tag spellings only (int, canonical decimal str, FTag member); '05', ' 5', '+5' are FREE",
    "class objects as values (the library's internal error-marker channel) are not generated",
    "whether equality of two containers is sensitive to tag order is FREE (near misses never differ by order only)",
    "exception type of del on a missing tag and of add_group on a plain tag is FREE (must raise and leave the container unchanged)",
]


class Color(enum.Enum):
    RED = 1
    GREEN = "g"


# incl. numbers the FTag enum has no member for (101, 261, 450, 809 are gaps inside its range; 957 is just beyond it)
POOL = [1, 11, 35, 8, 9, 10, 55, 58, 453, 448, 447, 802, 523, 5001, 99999, 2, 3, 101, 261, 450, 809, 957]
FT = {int(m.value): m for m in FTag}
VALS_S = ["", "x", "abc", "a|b", "a=b", "1=>[448=x]", "a|12=b", "=>", " lead", "trail ", "10=000", "8=FIX.4.4", "0", "1.50",
          "[", "]", "2=>[448=p, 448=q]", "|", "11=x", "#err#"]
ENUMS = [FMsg.LOGON, FMsg.NEWORDERSINGLE, FOrdStatus.NEW, FOrdStatus.CREATED, FOrdSide.BUY, Color.RED, Color.GREEN, FTag.ClOrdID]

tag_n = st.sampled_from(POOL)
spelling = st.sampled_from(["int", "str", "ftag"])
tagspec = st.tuples(tag_n, spelling)
val = st.one_of(
    st.tuples(st.just("s"), st.sampled_from(VALS_S)),
    st.tuples(st.just("s"), st.text(alphabet=st.characters(min_codepoint=32, max_codepoint=126), max_size=6)),
    st.tuples(st.just("i"), st.integers(-5, 10**6)),
    st.tuples(st.just("f"), st.sampled_from([0.0, 1.5, -2.25, 21.21, 1e-7, 100.0, 9.999999999999998e-05, 3e-17, -1e-17, 1e16, 2.5e22, 0.1 + 0.2])),
    st.tuples(st.just("e"), st.integers(0, len(ENUMS) - 1)),
)
member = st.tuples(st.sampled_from([448, 447, 452, 58, 1, 523, 11]), val)
flat_item = st.lists(member, min_size=0, max_size=3, unique_by=lambda m: m[0])


@st.composite
def item(draw, depth=1):
    it = [("f", t, v) for t, v in draw(flat_item)]
    if depth > 0 and draw(st.integers(0, 3)) == 0:
        sub = draw(st.lists(item(depth - 1), min_size=0, max_size=2))
        it.append(("g", draw(st.sampled_from([802, 539, 804])), sub))
    return it


index = st.sampled_from([-1, -1, 0, 1, 2, 7])
# non-integer tags; "f:"/"b:"/"d:" specs are float / bool / Decimal objects that compare (and hash) equal to
# pool integers, so a lookup keyed by the tag object would confuse them with the integer spelling
badtag = st.sampled_from(["abc", "", "1.5", None, "1a", "0x10", "one", "1 1", "f:1.0", "f:11.0", "f:55.0", "f:453.0", "f:11.5", "b:True", "b:False", "d:11.0", "d:58.0"])


def mk_bad(spec):
    if isinstance(spec, str) and spec[:2] in ("f:", "b:", "d:"):
        import decimal

        k, v = spec[:1], spec[2:]
        return float(v) if k == "f" else (v == "True") if k == "b" else decimal.Decimal(v)
    return spec
op = st.one_of(
    st.tuples(st.just("set"), tagspec, val, st.booleans()),
    st.tuples(st.just("set"), tagspec, val, st.just(False)),
    st.tuples(st.just("setitem"), tagspec, val),
    st.tuples(st.just("del"), tagspec),
    st.tuples(st.just("get"), tagspec, st.booleans()),
    st.tuples(st.just("getitem"), tagspec),
    st.tuples(st.just("contains"), tagspec),
    st.tuples(st.just("is_group"), tagspec),
    st.tuples(st.just("add_group"), tagspec, item(), index, st.booleans()),
    st.tuples(st.just("add_group"), tagspec, item(), index, st.booleans()),
    st.tuples(st.just("add_group_bad"), tagspec, st.sampled_from(["str", "int", "list", "none"])),
    st.tuples(st.just("set_group"), tagspec, st.lists(item(), max_size=3), st.booleans()),
    st.tuples(st.just("set_group_bad"), tagspec, item()),
    st.tuples(st.just("glist"), tagspec),
    st.tuples(st.just("gindex"), tagspec, st.sampled_from([-1, 0, 1, 2, 5])),
    st.tuples(st.just("gtag"), tagspec, st.sampled_from([448, 447, 58, 1]), st.sampled_from(VALS_S[:6] + ["7"])),
    st.tuples(st.just("dup"), st.integers(0, 10**6), index),
    st.tuples(st.just("gtag_m"), st.integers(0, 10**6)),
    st.tuples(st.just("gtag_m"), st.integers(0, 10**6)),
    st.tuples(st.just("query"), st.lists(tagspec, max_size=3)),
    st.tuples(st.just("items")),
    st.tuples(st.just("eq"), st.integers(0, 10**6)),
    st.tuples(st.just("eq"), st.integers(0, 10**6)),
    st.tuples(st.just("pickle")),
    st.tuples(st.just("ctor")),
    st.tuples(st.just("badtag"), st.sampled_from(["set", "setitem", "add_group", "set_group", "ctor"]), badtag),
)


def history(maxlen):
    return st.lists(op, min_size=1, max_size=maxlen)


# ------------------------------------------------------------------ helpers
def mk_tag(ts):
    n, sp = ts
    if sp == "ftag" and n in FT:
        return FT[n]
    if sp == "str":
        return str(n)
    return n


def mk_val(v):
    k, x = v
    if k == "e":
        return ENUMS[x]
    return x


def mk_item_dict(it):
    d = {}
    for e in it:
        if e[0] == "f":
            d[e[1]] = mk_val(e[2])
        else:
            d[e[1]] = [mk_item_dict(s) for s in e[2]]
    return d


def mk_item_container(it):
    c = FIXContainer()
    for e in it:
        if e[0] == "f":
            c.set(e[1], mk_val(e[2]))
        else:
            c.set_group(e[1], [mk_item_container(s) for s in e[2]])
    return c


def model_item(it):
    out = []
    for e in it:
        if e[0] == "f":
            out.append([str(e[1]), str(mk_val(e[2]))])
        else:
            out.append([str(e[1]), [model_item(s) for s in e[2]]])
    return out


def snap(c):
    """Structure of a real container read through its public surface (tags / items / group list)."""
    out = []
    for t, v in c.items():
        if c.is_group(t):
            out.append([t, [snap(g) for g in c.get_group_list(t)]])
        else:
            out.append([t, v])
    return out


def build(model, cls=FIXContainer, msg_type=None):
    """Builds a container from a model through the public API, independently of the one under test."""
    c = FIXMessage(msg_type) if msg_type is not None else cls()
    for t, v in model:
        if isinstance(v, list):
            c.set_group(int(t), [build(i) for i in v])
        else:
            c.set(int(t), v)
    return c


def m_find(model, t):
    for i, (k, _) in enumerate(model):
        if k == t:
            return i
    return -1


FRAMING = {"8", "9", "10", "35"}


def near_misses(model, k):
    """Single-change variants of model whose tag/value content differs (never by order only)."""
    out = []
    if not model:
        return [("extra-tag", [["7777", "x"]])]
    i = k % len(model)
    t, v = model[i]
    m2 = copy.deepcopy(model)
    if isinstance(v, list):
        m2[i][1] = v + [[["448", "zz"]]]
        out.append(("group-item-added", m2))
        if v:
            m3 = copy.deepcopy(model)
            m3[i][1] = v[:-1]
            out.append(("group-item-removed", m3))
            m4 = copy.deepcopy(model)
            last = m4[i][1][-1]
            if last and not isinstance(last[0][1], list):
                last[0][1] = last[0][1] + "~"
                out.append(("group-member-value", m4))
        m5 = copy.deepcopy(model)
        m5[i][1] = "%d=>%s" % (len(v), "x")
        out.append(("group-to-plain", m5))
        # plain string that renders exactly like the group
        try:
            rend = str(build([[t, v]]).tags[t])
            m6 = copy.deepcopy(model)
            m6[i][1] = rend
            out.append(("group-vs-its-rendering", m6))
        except Exception:
            pass
    else:
        m2[i][1] = v + "~"
        out.append(("value-changed", m2))
        m3 = copy.deepcopy(model)
        nt = str(int(t) + 10007)
        if m_find(model, nt) < 0:
            m3[i][0] = nt
            out.append(("tag-changed", m3))
        # split "a|12=b" look-alikes: value contains "|<int>=" -> two tags
        if "|" in v:
            a, _, rest = v.partition("|")
            t2, eq, b = rest.partition("=")
            if eq and t2.isdigit() and m_find(model, str(int(t2))) < 0 and str(int(t2)) == t2:
                m4 = copy.deepcopy(model)
                m4[i][1] = a
                m4.insert(i + 1, [t2, b])
                out.append(("value-split-at-bar", m4))
        # merge with the following plain tag into one value
        if i + 1 < len(model) and not isinstance(model[i + 1][1], list):
            m5 = copy.deepcopy(model)
            m5[i][1] = "%s|%s=%s" % (v, model[i + 1][0], model[i + 1][1])
            del m5[i + 1]
            out.append(("values-merged-with-bar", m5))
    m7 = copy.deepcopy(model)
    del m7[i]
    out.append(("tag-removed", m7))
    m8 = copy.deepcopy(model)
    if m_find(model, "7777") < 0:
        m8.append(["7777", "x"])
        out.append(("extra-tag", m8))
    return out


# ------------------------------------------------------------------ interpreter
def run_history(ops, record):
    real = FIXMessage("D")
    model = []
    classes = set()
    refused = 0
    groups = 0

    def fail(sig, detail):
        record("C18:" + sig, detail)

    def same(where):
        try:
            s = snap(real)
        except BaseException as e:  # noqa
            fail(f"snapshot-raises/{where}", f"reading the container raised {type(e).__name__}: {e}")
            return False
        if s != model:
            fail(f"state/{where}", f"container {s!r} != model {model!r}")
            return False
        return True

    def expect_raise(fn, etypes, where, unchanged=True):
        """fn must raise one of etypes (None = any Exception); container must stay unchanged."""
        nonlocal refused
        try:
            r = fn()
        except Exception as e:
            refused += 1
            if etypes is not None and not isinstance(e, etypes):
                fail(f"wrong-exception/{where}", f"raised {type(e).__name__}: {e}; expected {[x.__name__ for x in etypes]}")
            elif etypes is not None and type(e) not in etypes and FIXMessageError in etypes and len(etypes) == 1:
                pass
            if unchanged:
                same(where + "/after-refusal")
            return True
        fail(f"not-refused/{where}", f"operation returned {r!r} instead of raising; model {model!r}")
        return False

    for o in ops:
        kind = o[0]
        classes.add(kind)
        if kind in ("dup", "gtag_m"):
            # resolved against the model: a further item sharing one member (tag, value) with an existing item of a group /
            # a lookup by a (tag, value) that some item really holds
            cands = [(ts_, k_, mt, mv) for ts_, items_ in model if isinstance(items_, list)
                     for k_, itm_ in enumerate(items_) for mt, mv in itm_ if not isinstance(mv, list)]
            if not cands:
                continue
            ts_, k_, mt, mv = cands[o[1] % len(cands)]
            if kind == "dup":
                other = 58 if mt != "58" else 1
                o = ("add_group", (int(ts_), "int"), [("f", int(mt), ("s", mv)), ("f", other, ("s", f"dup{o[1] % 97}"))], o[2], False)
                kind = "add_group"
                classes.add("group-items-sharing-a-value")
            else:
                o = ("gtag", (int(ts_), "int"), int(mt), mv)
                kind = "gtag"
                classes.add("gtag-from-content")
        if kind in ("set", "setitem"):
            t = mk_tag(o[1])
            v = mk_val(o[2])
            rep = o[3] if kind == "set" else False
            ts = str(o[1][0])
            i = m_find(model, ts)
            if kind == "set":
                fn = (lambda: real.set(t, v, replace=True)) if rep else (lambda: real.set(t, v))
            else:
                def fn():
                    real[t] = v
            if i >= 0 and not rep:
                expect_raise(fn, (DuplicatedTagError,), f"{kind}-existing")
                classes.add("refused-dup")
            else:
                try:
                    fn()
                except Exception as e:
                    fail(f"raises/{kind}", f"{kind}({t!r},{v!r},replace={rep}) raised {type(e).__name__}: {e}")
                    return classes, refused, groups
                if i >= 0:
                    if isinstance(model[i][1], list):
                        classes.add("replace-group-by-plain")
                    model[i][1] = str(v)
                else:
                    model.append([ts, str(v)])
                same(kind)
        elif kind == "del":
            t = mk_tag(o[1])
            ts = str(o[1][0])
            i = m_find(model, ts)

            def fn():
                del real[t]
            if i < 0:
                expect_raise(fn, None, "del-missing")
            else:
                try:
                    fn()
                except Exception as e:
                    fail("raises/del", f"del [{t!r}] raised {type(e).__name__}: {e}")
                    return classes, refused, groups
                del model[i]
                same("del")
        elif kind in ("get", "getitem"):
            t = mk_tag(o[1])
            ts = str(o[1][0])
            i = m_find(model, ts)
            use_default = kind == "get" and o[2]
            sentinel = "<<default>>"
            if kind == "getitem":
                fn = lambda: real[t]  # noqa
            elif use_default:
                fn = lambda: real.get(t, sentinel)  # noqa
            else:
                fn = lambda: real.get(t)  # noqa
            if i < 0:
                if use_default:
                    try:
                        r = fn()
                        if r != sentinel:
                            fail("get-default", f"get(missing, default) returned {r!r}")
                    except Exception as e:
                        fail("raises/get-default", f"get(missing tag, default) raised {type(e).__name__}: {e}")
                else:
                    expect_raise(fn, (TagNotFoundError,), f"{kind}-missing", unchanged=False)
            elif isinstance(model[i][1], list):
                expect_raise(fn, (FIXMessageError,), f"{kind}-group", unchanged=False)
            else:
                try:
                    r = fn()
                except Exception as e:
                    fail(f"raises/{kind}", f"{kind}({t!r}) raised {type(e).__name__}: {e}")
                    continue
                if r != model[i][1] or type(r) is not str:
                    fail(f"read-value/{o[1][1]}", f"{kind}({t!r}) returned {r!r}, written {model[i][1]!r}")
        elif kind == "contains":
            t = mk_tag(o[1])
            exp = m_find(model, str(o[1][0])) >= 0
            if (t in real) != exp:
                fail(f"contains/{o[1][1]}", f"({t!r} in container) is {not exp}, model says {exp}")
        elif kind == "is_group":
            t = mk_tag(o[1])
            i = m_find(model, str(o[1][0]))
            exp = None if i < 0 else isinstance(model[i][1], list)
            got = real.is_group(t)
            if got is not exp:
                fail("is_group", f"is_group({t!r}) = {got!r}, expected {exp!r}")
        elif kind == "add_group":
            t = mk_tag(o[1])
            ts = str(o[1][0])
            it, idx, as_cont = o[2], o[3], o[4]
            i = m_find(model, ts)
            arg = mk_item_container(it) if as_cont else mk_item_dict(it)
            fn = (lambda: real.add_group(t, arg)) if idx == -1 and len(it) % 2 else (lambda: real.add_group(t, arg, idx))
            groups += 1
            if i >= 0 and not isinstance(model[i][1], list):
                expect_raise(fn, None, "add_group-on-plain")
            else:
                try:
                    fn()
                except Exception as e:
                    fail("raises/add_group", f"add_group({t!r}, {arg!r}, {idx}) raised {type(e).__name__}: {e}")
                    return classes, refused, groups
                mi = model_item(it)
                if i < 0:
                    model.append([ts, [mi]])
                elif idx == -1:
                    model[i][1].append(mi)
                else:
                    model[i][1].insert(idx, mi)
                    classes.add("add_group-index")
                same("add_group")
        elif kind == "add_group_bad":
            t = mk_tag(o[1])
            arg = {"str": "448=x", "int": 5, "list": [{448: "x"}], "none": None}[o[2]]
            expect_raise(lambda: real.add_group(t, arg), (FIXMessageError,), "add_group-bad-item")
        elif kind == "set_group":
            t = mk_tag(o[1])
            ts = str(o[1][0])
            items, as_cont = o[2], o[3]
            i = m_find(model, ts)
            arg = [mk_item_container(x) if as_cont else mk_item_dict(x) for x in items]
            groups += 1
            if i >= 0:
                expect_raise(lambda: real.set_group(t, arg), (DuplicatedTagError,), "set_group-existing")
            else:
                try:
                    real.set_group(t, arg)
                except Exception as e:
                    fail("raises/set_group", f"set_group({t!r}, {arg!r}) raised {type(e).__name__}: {e}")
                    return classes, refused, groups
                model.append([ts, [model_item(x) for x in items]])
                same("set_group")
                # the caller goes on using ITS list (appends to it, clears it): the container holds what it was given then
                arg.append(mk_item_container([("f", 448, ("s", "added-by-the-caller-afterwards"))]))
                same("set_group/caller-appends-to-its-list")
                del arg[:]
                same("set_group/caller-clears-its-list")
                classes.add("caller-reuses-list")
        elif kind == "set_group_bad":
            t = mk_tag(o[1])
            ts = str(o[1][0])
            i = m_find(model, ts)
            arg = [mk_item_dict(o[2]), "448=x"]
            expect_raise(lambda: real.set_group(t, arg), (DuplicatedTagError,) if i >= 0 else (FIXMessageError,), "set_group-bad-item")
        elif kind in ("glist", "gindex", "gtag"):
            t = mk_tag(o[1])
            ts = str(o[1][0])
            i = m_find(model, ts)
            if kind == "glist":
                fn = lambda: real.get_group_list(t)  # noqa
            elif kind == "gindex":
                fn = lambda: real.get_group_by_index(t, o[2])  # noqa
            else:
                fn = lambda: real.get_group_by_tag(t, o[2], o[3])  # noqa
            if i < 0:
                expect_raise(fn, (TagNotFoundError,), f"{kind}-missing", unchanged=False)
            elif not isinstance(model[i][1], list):
                expect_raise(fn, (UnmappedRepeatedGrpError,), f"{kind}-plain", unchanged=False)
            else:
                items = model[i][1]
                if kind == "glist":
                    exp = ("list", items)
                elif kind == "gindex":
                    k = o[2]
                    if k >= len(items):
                        exp = ("raise", TagNotFoundError)
                    elif k >= 0 or (k == -1 and items):
                        exp = ("item", items[k])
                    else:
                        exp = None  # FREE
                else:
                    exp = ("raise", TagNotFoundError)
                    for itm in items:
                        j = m_find(itm, str(o[2]))
                        if j >= 0:
                            if isinstance(itm[j][1], list):
                                exp = None
                                break
                            if itm[j][1] == o[3]:
                                exp = ("item", itm)
                                break
                if exp is None:
                    continue
                if exp[0] == "raise":
                    expect_raise(fn, (exp[1],), f"{kind}-not-found", unchanged=False)
                    continue
                try:
                    r = fn()
                except Exception as e:
                    fail(f"raises/{kind}", f"{kind} raised {type(e).__name__}: {e}; model items {items!r}")
                    continue
                got = [snap(g) for g in r] if exp[0] == "list" else snap(r)
                if got != exp[1]:
                    fail(f"group-read/{kind}", f"{kind} returned {got!r}, model {exp[1]!r}")
        elif kind == "query":
            tags = [mk_tag(x) for x in o[1]]
            want = [str(x[0]) for x in o[1]] if tags else [t for t, _ in model]
            has_group = any(m_find(model, w) >= 0 and isinstance(model[m_find(model, w)][1], list) for w in want)
            if has_group:
                expect_raise(lambda: real.query(*tags), (FIXMessageError,), "query-group", unchanged=False)
            else:
                try:
                    r = real.query(*tags)
                except Exception as e:
                    fail("raises/query", f"query{tuple(tags)!r} raised {type(e).__name__}: {e}")
                    continue
                exp = {}
                for w in want:
                    j = m_find(model, w)
                    exp[w] = model[j][1] if j >= 0 else None
                got = {str(k): v for k, v in r.items()}
                if got != exp:
                    fail("query", f"query{tuple(tags)!r} = {got!r}, model {exp!r}")
        elif kind == "items":
            same("items")
        elif kind == "eq":
            k = o[1]
            try:
                twin = build(model, msg_type="D")
            except Exception as e:
                raise RuntimeError(f"model not buildable: {e!r} {model!r}")
            try:
                if not (real == twin) or not (twin == real) or (real != twin):
                    fail("eq/equal-content-not-equal", f"independently rebuilt equal container compares unequal: {model!r}")
            except Exception as e:
                fail("raises/eq", f"== raised {type(e).__name__}: {e}")
            for name, nm in near_misses(model, k):
                try:
                    other = build(nm, msg_type="D")
                except Exception:
                    continue
                classes.add("near-miss:" + name)
                try:
                    if real == other or other == real:
                        fail(f"eq/near-miss-equal/{name}", f"containers with different content compare equal: {model!r} == {nm!r}")
                except Exception as e:
                    fail("raises/eq-near", f"== raised {type(e).__name__}: {e}")
            # plain dicts
            flat = all(not isinstance(v, list) for _, v in model)
            core = {int(t): v for t, v in model if t not in FRAMING}
            if flat:
                variants = [("exact", dict(core), True)]
                d2 = dict(core)
                d2.update({8: "FIX.4.4", 9: "12", 10: "000", 35: "D"})
                variants.append(("with-framing", d2, True))
                d3 = {str(a): b for a, b in core.items()}
                variants.append(("str-keys", d3, True))
                if core:
                    kk = sorted(core)[k % len(core)]
                    d4 = dict(core)
                    d4[kk] = core[kk] + "~"
                    variants.append(("value-changed", d4, False))
                    d5 = dict(core)
                    del d5[kk]
                    variants.append(("tag-missing", d5, False))
                d6 = dict(core)
                d6[7777] = "x"
                if "7777" not in [t for t, _ in model]:
                    variants.append(("extra-tag", d6, False))
                for name, d, exp in variants:
                    classes.add("dict-eq:" + name)
                    try:
                        got = real == d
                    except Exception as e:
                        fail(f"raises/dict-eq/{name}", f"container == dict raised {type(e).__name__}: {e}; dict={d!r} model={model!r}")
                        continue
                    if bool(got) != exp:
                        fail(f"dict-eq/{name}", f"(container == {d!r}) is {got}, expected {exp}; model={model!r}")
            else:
                # documented: FIXMessageError when a compared tag is a group
                gt = [int(t) for t, v in model if isinstance(v, list) and t not in FRAMING]
                if gt:
                    d = {int(t): (v if not isinstance(v, list) else "x") for t, v in model if t not in FRAMING}
                    try:
                        got = real == d
                        if got:
                            fail("dict-eq/group-equal", f"container with group == flat dict {d!r} is True")
                    except FIXMessageError:
                        pass
                    except Exception as e:
                        fail("raises/dict-eq/group", f"container == dict raised {type(e).__name__}: {e}")
        elif kind == "pickle":
            try:
                c2 = pickle.loads(pickle.dumps(real))
            except Exception as e:
                fail("raises/pickle", f"pickle round trip raised {type(e).__name__}: {e}")
                continue
            try:
                s2 = snap(c2)
            except Exception as e:
                fail("raises/pickle-read", f"reading the unpickled container raised {type(e).__name__}: {e}")
                continue
            if s2 != model:
                fail("pickle/content", f"unpickled {s2!r} != model {model!r}")
            if not (c2 == real) or getattr(c2, "msg_type", None) != real.msg_type:
                fail("pickle/eq", "unpickled container != original")
        elif kind == "ctor":
            d = {}
            for t, v in model:
                d[int(t)] = [mk_dict_from_model(i) for i in v] if isinstance(v, list) else v
            try:
                c2 = FIXMessage("D", d)
                if snap(c2) != model:
                    fail("ctor/content", f"FIXMessage(dict) gives {snap(c2)!r}, model {model!r}")
                elif not (c2 == real):
                    fail("ctor/eq", "container built by the constructor != container built by operations")
            except Exception as e:
                fail("raises/ctor", f"constructor from dict raised {type(e).__name__}: {e}; {d!r}")
        elif kind == "badtag":
            how, bt = o[1], mk_bad(o[2])
            if how == "set":
                fn = lambda: real.set(bt, "v")  # noqa
            elif how == "setitem":
                def fn():
                    real[bt] = "v"
            elif how == "add_group":
                fn = lambda: real.add_group(bt, {448: "x"})  # noqa
            elif how == "set_group":
                fn = lambda: real.set_group(bt, [{448: "x"}])  # noqa
            else:
                fn = lambda: FIXContainer({bt: "v"})  # noqa
            try:
                fn()
            except FIXMessageError:
                refused += 1
                same("badtag/after-refusal")
            except Exception as e:
                fail(f"wrong-exception/badtag/{how}", f"non-integer tag {bt!r} raised {type(e).__name__}: {e} (expected the library's message error)")
                same("badtag/after-refusal")
            else:
                fail(f"nonint-tag-accepted/{how}", f"non-integer tag {bt!r} was accepted by {how}")
                # the container now holds a non-integer tag: stop this history
                return classes, refused, groups
    return classes, refused, groups


def mk_dict_from_model(item_model):
    d = {}
    for t, v in item_model:
        d[int(t)] = [mk_dict_from_model(i) for i in v] if isinstance(v, list) else v
    return d


def run_case(acc, ops):
    def record(sig, detail):
        acc.violation(sig, detail, {"ops": ops})

    classes, refused, groups = run_history(ops, record)
    nt = refused > 0 and groups > 0
    acc.case(repr(ops) if nt else None, cls=sorted(classes),
             sample={"ops": ops[:12]} if nt and len(acc.samples) < 4 and len(ops) < 14 else None)


def hyp_shard(acc, n, seed, maxlen):
    run_given(history(maxlen), lambda ops: run_case(acc, ops), n, seed)


def big_groups(acc):
    """Groups of 9 .. 300 items: index order, lookups by member value before and after items were edited through the references
    the accessors hand out, additions at an index, NumInGroup rendering across digit counts."""
    for n in (9, 10, 31, 32, 33, 40, 100, 300):
        case = {"big_group": n}

        def bad(sig, detail, n=n, case=case):
            acc.violation(f"C18:big-group/{sig}", detail + f" | group of {n} items", case)
        c = FIXMessage("D")
        for i in range(n):
            c.add_group(453, {448: f"p{i}", 452: i % 5})
        try:
            if [g[448] for g in c.get_group_list(453)] != [f"p{i}" for i in range(n)]:
                bad("order", "get_group_list does not return the items in insertion order")
            if c.get_group_by_tag(453, 448, f"p{n - 2}")[448] != f"p{n - 2}" or c.get_group_by_index(453, n - 1)[448] != f"p{n - 1}":
                bad("lookup", "lookup of a late item failed")
            # edit an EARLY item through the reference so that it carries the value of a late one: first match in index order wins
            c.get_group_by_index(453, 3).set(448, f"p{n - 2}", replace=True)
            got = c.get_group_by_tag(453, 448, f"p{n - 2}")
            if got is not c.get_group_by_index(453, 3):
                bad("lookup-after-edit", f"get_group_by_tag returned the item at a later index although item 3 now carries the value (452={got.get(452, None)})")
            # the old value of item 3 is gone
            try:
                c.get_group_by_tag(453, 448, "p3")
                bad("lookup-stale-value", "get_group_by_tag still finds the value item 3 carried before it was edited")
            except TagNotFoundError:
                pass
            c.add_group(453, {448: "front"}, 0)
            if c.get_group_by_index(453, 0)[448] != "front" or c.get_group_by_index(453, 4)[448] != f"p{n - 2}" or len(c.get_group_list(453)) != n + 1:
                bad("add-at-index", "add_group(..., index=0) did not shift the items by one")
            if not str(c.tags["453"]).startswith(f"{n + 1}=>"):
                bad("count-rendering", f"group renders as {str(c.tags['453'])[:20]!r}, expected NumInGroup {n + 1}")
        except Exception as e:  # noqa
            bad(f"raises/{type(e).__name__}", f"{type(e).__name__}: {e}")
        acc.case(("big-group", n), cls=["big-group"])


def fixed(acc):
    """Seed-independent histories that pin the interesting corners on every run."""
    big_groups(acc)
    T = (11, "int")
    cases = [
        [("set", T, ("s", "a|12=b"), False), ("eq", 0)],
        [("set", (453, "int"), ("s", "x"), False), ("add_group", (453, "int"), [("f", 448, ("s", "x"))], -1, False)],
        [("add_group", (453, "str"), [("f", 448, ("s", "x"))], -1, False), ("eq", 0), ("set", (453, "ftag"), ("s", "v"), False),
         ("set", (453, "int"), ("s", "v"), True), ("eq", 0)],
        [("set", T, ("s", "x"), False), ("set", (35, "int"), ("s", "D"), False), ("eq", 1), ("pickle",), ("ctor",)],
        [("set_group", (453, "int"), [[("f", 448, ("s", "p")), ("g", 802, [[("f", 523, ("s", "q"))]])]], True), ("eq", 0), ("pickle",), ("ctor",),
         ("gindex", (453, "int"), 0), ("gindex", (453, "int"), 1), ("gtag", (453, "int"), 448, "p"), ("set", (453, "str"), ("i", 1), False)],
        [("badtag", h, b) for h in ("set", "setitem", "add_group", "set_group", "ctor") for b in ("abc", "", "1.5", None)],
        [("set", (11, "int"), ("s", "x"), False), ("set", (1, "int"), ("s", "y"), False), ("add_group", (453, "int"), [("f", 448, ("s", "x"))], -1, False)]
        + [("badtag", h, b) for h in ("set", "setitem", "add_group", "set_group") for b in ("f:11.0", "b:True", "d:11.0", "f:453.0", "f:1.0")] + [("items",)],
    ]
    for ops in cases:
        ops = [tuple(o) for o in ops]
        run_case(acc, ops)
        acc.klass("fixed")


def plan(tier, seed):
    shards, n, ml = (10, 800, 30) if tier == "quick" else (16, 12000, 60)
    jobs = [("fixed", {})]
    jobs += [("hyp_shard", {"n": n, "seed": derive_seed(seed, PROPERTY, i), "maxlen": ml}) for i in range(shards)]
    return jobs


def _tup(x):
    return tuple(_tup(i) for i in x) if isinstance(x, list) else x


def replay(acc, case):
    if "big_group" in case:
        big_groups(acc)
        return
    ops = [_detuple(o) for o in case["ops"]]
    run_case(acc, ops)


def _detuple(o):
    """JSON turned tuples into lists; items of groups must stay lists of tuples."""
    o = list(o)
    kind = o[0]

    def T(x):
        return tuple(x) if isinstance(x, list) else x

    def item_(it):
        out = []
        for e in it:
            if e[0] == "f":
                out.append(("f", e[1], tuple(e[2])))
            else:
                out.append(("g", e[1], [item_(s) for s in e[2]]))
        return out

    if kind in ("set",):
        return (kind, T(o[1]), T(o[2]), o[3])
    if kind == "setitem":
        return (kind, T(o[1]), T(o[2]))
    if kind == "add_group":
        return (kind, T(o[1]), item_(o[2]), o[3], o[4])
    if kind == "set_group":
        return (kind, T(o[1]), [item_(x) for x in o[2]], o[3])
    if kind == "set_group_bad":
        return (kind, T(o[1]), item_(o[2]))
    if kind == "query":
        return (kind, [T(x) for x in o[1]])
    return tuple(T(x) for x in o)
