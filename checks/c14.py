"""C14 - concurrent senders never corrupt the outbound sequence (controlled scheduler over real suspension points)."""
import asyncio

from hypothesis import strategies as st

from asyncfix import FMsg
from asyncfix.connection import ConnectionState
from asyncfix.errors import FIXConnectionError
from asyncfix.message import FIXMessage, MessageDirection
from vlib.hyp import run_given
from vlib.reffix import ref_check_frame, ref_get, ref_parse, ref_split_stream
from vlib.runner import derive_seed
from vlib.sess import Bench

PROPERTY = "C14"
LEVEL = "exploration"
G = {"quick": 8, "thorough": 10}
TASKSETS = [
    ("A", "B"), ("A", "R:resend"), ("A", "R:testreq"), ("A", "H"), ("A", "R:gap"), ("R:resend", "H"), ("A", "B", "R:resend"), ("A", "B", "H"),
    ("A", "R:logon"), ("A", "R:resend2"), ("B", "R:appmsg"),
    # initiator whose application sends its first Logon while another task sends Logout / an application message
    ("I:logon", "I:logout"), ("I:logon", "A"), ("I:logon", "I:logout", "A"),
    # a sender of one large frame (100 KB, beyond any transport buffer limit) next to ordinary senders
    ("L", "A"), ("L", "H"),
    # the application ends the connection (disconnect() with / without a Logout) while the reader serves a ResendRequest and another task sends
    ("R:resend", "X:drop", "A"), ("R:resend", "X:logout", "A"), ("A", "X:drop"),
]


def RULE(tier):
    return (
        "One real endpoint (acceptor; an initiator for the first-Logon task sets) whose suspension points are owned by the harness: every drain() under back-pressure (pause -> "
        "drain blocks; resume wakes ALL waiters FIFO in one sweep, as asyncio does) and every awaited application hook "
        "(should_replay, on_state_change, on_message, on_logon) is a gate opened by the scheduler. Task sets of 2-3 among: "
        "application task A / B sending 2 messages each, a task L sending one 100 KB frame, the real reader task processing an injected ResendRequest over a "
        "pre-filled journal (also two requests back to back), a TestRequest, a frame above the expected number, an application "
        "message, the first Logon, the heartbeat path (send_test_req), and an initiator application sending its first Logon while "
        "other tasks send Logout / application messages, and an application task that ends the connection (disconnect() with or without a Logout). EXHAUSTIVE depth-first enumeration of all choice "
        f"sequences (start a task / open gate k / pause / resume / reset the connection while senders wait in drain / the peer closing the connection (EOF) while senders wait in drain / cancel an application task that is suspended in its send) up to {G[tier]} choices, each schedule re-executed from scratch and then "
        "run to completion, plus Hypothesis-drawn longer schedules. Oracle on the bytes written, in wire order: the concatenation of all writes is a sequence of well-formed frames; new frames (no "
        "PossDupFlag, not SequenceReset) carry distinct, strictly increasing MsgSeqNums; a PossDup frame repeats a number sent "
        "before with the same body; no task raised anything but FIXConnectionError (in particular no DuplicateSeqNoError); every "
        "new frame is journaled under its number byte for byte; live and stored next_num_out = highest new number + 1; a served "
        "ResendRequest retransmits every replayable application message journaled before it, whatever ran in between, and no GapFill "
        "ever covers the number of a replayable application message. "
        "Non-trivial = schedule in which two tasks were suspended at the same time; distinct by (task set, choice sequence)."
    )


ASSUMPTIONS = [
    "only interleavings that cooperative asyncio scheduling permits are generated (suspension happens only at awaits that really suspend; FIFO drain wake-up)",
    "FREE: relative order of frames from different tasks; which task's send is refused by state",
]


class Sched:
    def __init__(self, tasks, start="active"):
        self.tasknames = tuple(tasks)
        self.cancelled = set()
        self.eof_fed = False
        if any(t.startswith("I:") for t in tasks):
            from checks.c11 import make_bench

            self.b = make_bench("init-connected")  # initiator, transport up, nothing sent yet
        else:
            self.b = Bench("acceptor", start, next_out=1)
        self.ep = self.b.ep
        self.w = self.b.w
        self.writer = self.b.link.writers[self.b.side]
        self.pending = []
        self.expected_replay = None
        self.failed = False  # [label, future]
        self.tasks = {}
        self.names = list(tasks)
        self.unstarted = list(tasks)
        self.errors = []
        self.max_suspended = 0
        self.ep.hook_gate = self._gate
        self.ep.replay_filter = lambda m: "NOREPLAY" not in m.get(58, "")
        self.cur = None
        self.payload = 0

    async def _gate(self, ep, name, *a):
        fut = self.w.loop.create_future()
        self.pending.append([name, fut])
        await fut

    def prefill(self):
        """Journal with replayable and non-replayable messages, sent before the gates are armed."""
        gate = self.ep.hook_gate
        self.ep.hook_gate = None
        if any(t.startswith("X:") for t in self.tasknames):
            # few gates (so that the bounded DFS reaches the end of the replay) and a journal ending with two replayable
            # messages in a row: the last suspension point of the replay is then the drain of a retransmission
            self.w.call(self.ep.send_msg(FIXMessage(FMsg.HEARTBEAT)))
            for i in (0, 3):
                self.w.call(self.ep.send_msg(FIXMessage(FMsg.NEWORDERSINGLE, {11: f"old{i}", 58: f"old{i}"})))
        else:
            for i in range(3):
                txt = "NOREPLAY" if i == 1 else f"old{i}"
                self.w.call(self.ep.send_msg(FIXMessage(FMsg.NEWORDERSINGLE, {11: f"old{i}", 58: txt})))
            self.w.call(self.ep.send_msg(FIXMessage(FMsg.HEARTBEAT)))
        self.ep.hook_gate = gate

    def _track(self):
        nblocked = len([1 for _, f in self.pending if not f.done()]) + len([1 for f in self.writer.drain_waiters if not f.done()])
        self.max_suspended = max(self.max_suspended, nblocked)

    async def _app(self, name, n=2):
        if name == "L":
            n = 1
        for i in range(n):
            self.payload += 1
            try:
                await self.ep.send_msg(FIXMessage(FMsg.NEWORDERSINGLE, {11: f"{name}{i}", 58: f"new {name}{i}" + ("x" * 100000 if name == "L" else "")}))
            except asyncio.CancelledError:
                return  # cancelled by the scheduler: the send was abandoned by its caller
            except FIXConnectionError:
                pass
            except ConnectionError:
                if not self.failed:
                    self.errors.append((name, "ConnectionError-without-fault", ""))
            except BaseException as e:  # noqa
                self.errors.append((name, type(e).__name__, str(e)))
                return

    async def _hb(self):
        try:
            await self.ep.send_test_req()
        except (FIXConnectionError, ConnectionError):
            pass
        except BaseException as e:  # noqa
            self.errors.append(("H", type(e).__name__, str(e)))

    def start(self, name):
        self.unstarted.remove(name)
        b, ep = self.b, self.ep
        if name in ("A", "B", "L"):
            self.tasks[name] = self.w.loop.create_task(self._app(name))
        elif name == "H":
            self.tasks[name] = self.w.loop.create_task(self._hb())
        elif name in ("X:drop", "X:logout"):
            async def bye(name=name):
                try:
                    await self.ep.disconnect(ConnectionState.DISCONNECTED_BROKEN_CONN if name == "X:drop" else ConnectionState.DISCONNECTED_WCONN_TODAY,
                                             logout_message=None if name == "X:drop" else "bye")
                except (FIXConnectionError, ConnectionError):
                    pass
                except BaseException as e:  # noqa
                    self.errors.append((name, type(e).__name__, str(e)))
            self.tasks[name] = self.w.loop.create_task(bye())
        elif name in ("I:logon", "I:logout"):
            msg = FIXMessage(FMsg.LOGON, {98: 0, 108: 30}) if name == "I:logon" else FIXMessage(FMsg.LOGOUT, {58: "bye"})

            async def one(msg=msg, name=name):
                try:
                    await self.ep.send_msg(msg)
                except (FIXConnectionError, ConnectionError):
                    pass
                except BaseException as e:  # noqa
                    self.errors.append((name, type(e).__name__, str(e)))
            self.tasks[name] = self.w.loop.create_task(one())
        else:
            kind = name.split(":")[1]
            E = ep._session.next_num_in
            if kind in ("resend", "resend2"):
                # what an open-ended request over everything sent so far must retransmit (C06's completeness clause,
                # here under interleaving): replayable application messages journaled up to now
                exp = set()
                for raw in ep._journaler.recover_messages(ep._session, MessageDirection.OUTBOUND, 1, 2**62):
                    p = ref_parse(raw)
                    if ref_get(p, 35) == "D" and "NOREPLAY" not in (ref_get(p, 58) or ""):
                        exp.add(int(ref_get(p, 34)))
                self.expected_replay = exp
            if kind == "resend":
                fr = b.frame("2", E, [(7, 1), (16, 0)])
            elif kind == "resend2":
                fr = b.frame("2", E, [(7, 2), (16, 4)]) + b.frame("2", E + 1, [(7, 1), (16, 0)])
            elif kind == "testreq":
                fr = b.frame("1", E, [(112, "PING")])
            elif kind == "gap":
                fr = b.frame("D", E + 3, [(11, "far")])
            elif kind == "gaprr":
                # the peer's ResendRequest / TestRequest numbered above the expectation: the endpoint first asks for the gap, then serves / answers
                fr = b.frame("2", E + 3, [(7, 1), (16, 0)])
            elif kind == "gaptr":
                fr = b.frame("1", E + 3, [(112, "PING-HIGH")])
            elif kind == "appmsg":
                fr = b.frame("D", E, [(11, "in1")]) + b.frame("1", E + 1, [(112, "P2")])
            elif kind == "logon":
                fr = b.frame("A", E, [(98, 0), (108, 30)])
            else:
                raise ValueError(kind)
            b.link.readers[b.side].feed(fr)
            self.tasks[name] = None  # runs inside the real reader task
        self.w.idle()
        self._track()

    def open(self, k):
        live = [p for p in self.pending if not p[1].done()]
        live[k][1].set_result(None)
        self.w.idle()
        self._track()

    def pause(self):
        self.writer.pause()

    def resume(self):
        self.writer.resume()
        self.w.idle()
        self._track()

    def choices(self):
        out = [("start", n) for n in self.unstarted]
        live = [p for p in self.pending if not p[1].done()]
        out += [("open", k) for k in range(len(live))]
        if self.writer.paused:
            out.append(("resume",))
            if self.writer.drain_waiters and not self.failed:
                out.append(("fail",))  # the connection is reset while senders wait for the buffer to drain
        else:
            out.append(("pause",))
        # the peer closes the connection (the reader sees EOF) while senders wait in drain
        if self.writer.paused and self.writer.drain_waiters and not self.eof_fed and not self.failed:
            out.append(("eof",))
        # an application task whose send is cancelled while it waits (asyncio.wait_for(conn.send_msg(m), timeout), task.cancel())
        for n in ("A", "B", "L"):
            t = self.tasks.get(n)
            if t is not None and not t.done() and n not in self.cancelled:
                out.append(("cancel", n))
        return out

    def apply(self, c):
        if c[0] == "start":
            self.start(c[1])
        elif c[0] == "open":
            self.open(c[1])
        elif c[0] == "pause":
            self.pause()
        elif c[0] == "eof":
            self.eof_fed = True
            self.b.link.readers[self.b.side].feed_eof()
            self.w.idle()
            self._track()
        elif c[0] == "cancel":
            self.cancelled.add(c[1])
            self.tasks[c[1]].cancel()
            self.w.idle()
            self._track()
        elif c[0] == "fail":
            self.failed = True
            self.writer.fail(ConnectionResetError("simulated reset while draining"))
            self.w.idle()
            self._track()
        else:
            self.resume()

    def busy(self):
        if any(not p[1].done() for p in self.pending) or self.writer.drain_waiters:
            return True
        return any(t is not None and not t.done() for t in self.tasks.values())

    def finish(self):
        for n in list(self.unstarted):
            self.start(n)
        for _ in range(400):
            if self.writer.paused:
                self.resume()
            live = [p for p in self.pending if not p[1].done()]
            if live:
                self.open(0)
                continue
            if not self.busy():
                break
        return not self.busy()

    def close(self):
        self.ep.hook_gate = None
        self.b.close()


def execute(acc, tasks, schedule, origin, judge=True):
    start = "connected" if ("R:logon" in tasks or any(t.startswith("I:") for t in tasks)) else "active"
    s = Sched(tasks, start)
    case = {"tasks": list(tasks), "schedule": [list(c) for c in schedule]}

    def bad(sig, detail):
        acc.violation("C14:" + sig, detail + f" | tasks={tasks} schedule={schedule}", case)

    try:
        if start == "active":
            s.prefill()
        w0 = len(s.writer.written)
        for c in schedule:
            ch = s.choices()
            if c not in ch:
                break  # schedule from a generator may not fit: truncate
            s.apply(c)
        if not judge:
            return s.choices(), bool(s.busy() or s.unstarted)
        pre_choices = None
        done = s.finish()
        if not done:
            bad("tasks-never-finish", "after opening every gate and releasing back-pressure some task is still suspended")
        lost = s.failed or s.eof_fed or any(t.startswith("X:") for t in tasks)  # the connection ended during the run
        for name, et, msg in s.errors:
            if lost and et == "AttributeError" and s.ep._socket_writer is None:
                # a send that passed the state gate, was suspended in an application hook and found the transport gone when
                # it resumed: which exception it then raises is not part of this property (its number is journaled, see below)
                acc.klass("send-resumed-after-connection-loss-FREE")
                continue
            bad(f"task-exception/{et}", f"task {name} raised {et}: {msg}")
        # the reader task must have survived
        if s.ep._aio_task_socket_read.done():
            bad("reader-task-died", "socket_read_task ended")
        # the wire is a byte stream: what counts is that the concatenation of all writes is a sequence of frames
        # (an implementation may hand one frame to the transport in several writes)
        writes = [fr for _, fr in s.writer.written]
        frames, rest = ref_split_stream(b"".join(writes))
        lost_early = s.failed or s.eof_fed or any(t.startswith("X:") for t in tasks)
        if rest and lost_early and rest.startswith(b"8=FIX") and len(frames) > 0:
            # the connection went away while a frame was being handed over in pieces: a truncated LAST frame on a dead
            # connection corrupts nothing
            acc.klass("truncated-last-frame-on-dead-connection-FREE")
        elif rest:
            bad("wire-malformed/stream", f"after {len(frames)} well-formed frames the byte stream continues with {rest[:120]!r} ({len(rest)} B), which is not a frame")
            frames = [fr for fr in writes if not ref_check_frame(fr)]
        sent = {}
        last_new = 0
        for i, fr in enumerate(frames):
            why = ref_check_frame(fr)
            if why:
                bad("wire-malformed", f"{why}: {fr[:200]!r}")
                continue
            p = ref_parse(fr)
            n, mt = int(ref_get(p, 34)), ref_get(p, 35)
            body = [x for x in p if x[0] not in ("8", "9", "10", "52", "43", "122")]
            if mt == "4":
                continue
            if ref_get(p, 43) == "Y":
                if n not in sent:
                    bad("possdup-of-unsent-number", f"PossDup frame under {n}, which was not sent before (wire position {i})")
                elif sent[n] != body:
                    bad("possdup-body-differs", f"PossDup frame under {n} differs from what was first sent under that number: {body} vs {sent[n]}")
                continue
            if n in sent:
                bad("number-reused", f"two new frames carry MsgSeqNum {n} (wire position {i}): {body} and {sent[n]}")
            elif n <= last_new:
                bad("numbers-not-increasing-on-wire", f"new frame {n} after {last_new} in wire order (position {i})")
            sent[n] = body
            last_new = max(last_new, n)
            try:
                row = s.ep._journaler.recover_msg(s.ep._session, MessageDirection.OUTBOUND, n)
            except Exception as e:
                row = e
            if row != fr:
                bad("not-journaled-under-its-number", f"new frame {n}: journal has {row!r:.160}, wire had {fr!r:.160}")
        # a SequenceReset-GapFill may only cover numbers that are not replayable application messages
        replayable = {n for n, body in sent.items() if dict(body).get("35") == "D" and "NOREPLAY" not in dict(body).get("58", "")}
        for fr in frames:
            p = ref_parse(fr)
            if ref_get(p, 35) == "4" and ref_get(p, 123) == "Y":
                lo, hi = int(ref_get(p, 34)), int(ref_get(p, 36)) - 1
                hit = sorted(n for n in replayable if lo <= n <= hi)
                if hit:
                    bad("gapfill-covers-replayable-message", f"GapFill {lo}->{hi + 1} skips the replayable application message(s) {hit} (a peer honouring it never receives them)")
                    break
        if s.expected_replay is not None and done and not lost:
            retr = set()
            for fr in frames:
                p = ref_parse(fr)
                if ref_get(p, 43) == "Y" and ref_get(p, 35) != "4":
                    retr.add(int(ref_get(p, 34)))
            missing = s.expected_replay - retr
            if missing:
                bad("replay-incomplete", f"replayable application message(s) {sorted(missing)} journaled before the ResendRequest were not retransmitted (retransmitted: {sorted(retr)})")
        live = s.ep._session.next_num_out
        stored = s.ep._journaler.create_or_load(s.ep._session.target_comp_id, s.ep._session.sender_comp_id).next_num_out
        if lost:
            # frames journaled but never written when the connection went away count as sent: the peer will ask for them
            rows = [int(ref_get(ref_parse(r_), 34)) for r_ in s.ep._journaler.recover_messages(s.ep._session, MessageDirection.OUTBOUND, 1, 2**62)]
            last_new = max([last_new] + rows)
        if sent and (live != last_new + 1 or stored != last_new + 1):
            bad("final-counter", f"highest new number sent {last_new}; live next_num_out={live}, stored={stored}")
        nt = s.max_suspended >= 2
        acc.case((tuple(tasks), tuple(schedule)) if nt else None, cls=[f"origin={origin}", "tasks=" + "+".join(tasks), f"max-suspended={min(s.max_suspended, 3)}"],
                 sample={"tasks": list(tasks), "schedule": [list(c) for c in schedule], "wire": [(ref_get(ref_parse(f), 35), ref_get(ref_parse(f), 34), ref_get(ref_parse(f), 43)) for f in frames[w0:]]}
                 if nt and len(acc.samples) < 4 and len(schedule) >= 5 and "R:resend" in tasks else None)
        return None, None
    finally:
        s.close()


def dfs(acc, tier, tasks, part, parts):
    limit = G[tier]
    count = [0]

    def rec(schedule):
        ch, busy = execute(acc, tasks, schedule, "dfs", judge=False)
        count[0] += 1
        execute(acc, tasks, schedule, "dfs")
        if len(schedule) >= limit or not busy:
            return
        for i, c in enumerate(ch):
            if len(schedule) == 1 and i % parts != part:
                continue
            # pause/resume toggling without anything in between explores nothing new
            if schedule and c[0] in ("pause", "resume") and schedule[-1][0] in ("pause", "resume"):
                continue
            # quick tier: cancellation and the peer's EOF only as the last choices of a schedule (they end a task / the
            # connection; what follows is explored by the walks and by the thorough tier)
            if tier == "quick" and c[0] in ("cancel", "eof") and len(schedule) < limit - 2:
                continue
            rec(schedule + [c])

    rec([])
    acc.extra["schedules"] = acc.extra.get("schedules", 0) + count[0]


choice = st.tuples(st.integers(0, 50))


def hyp_shard(acc, n, seed, maxlen):
    strat = st.tuples(st.sampled_from(TASKSETS + [("A", "B", "R:resend2"), ("A", "B", "R:resend", "H")]), st.lists(st.integers(0, 60), min_size=4, max_size=maxlen))

    def one(x):
        tasks, picks = x
        start = "connected" if ("R:logon" in tasks or any(t.startswith("I:") for t in tasks)) else "active"
        s = Sched(tasks, start)
        schedule = []
        try:
            if start == "active":
                s.prefill()
            for p in picks:
                ch = s.choices()
                if not ch or not (s.busy() or s.unstarted):
                    break
                c = ch[p % len(ch)]
                schedule.append(c)
                s.apply(c)
        finally:
            s.close()
        execute(acc, tasks, schedule, "hyp")

    run_given(strat, one, n, seed)


def EXHAUSTIVE(tier):
    return False


def plan(tier, seed):
    jobs = []
    for ts in TASKSETS:
        parts = 1 if tier == "quick" else 3
        jobs += [("dfs", {"tier": tier, "tasks": list(ts), "part": i, "parts": parts}) for i in range(parts)]
    n, k = (150, 4) if tier == "quick" else (5000, 10)
    jobs += [("hyp_shard", {"n": n, "seed": derive_seed(seed, PROPERTY, i), "maxlen": 14 if tier == "quick" else 40}) for i in range(k)]
    return jobs


def replay(acc, case):
    execute(acc, tuple(case["tasks"]), [tuple(c) for c in case["schedule"]], "replay")
