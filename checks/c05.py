"""C05 - outbound messages are numbered consecutively and journaled under that number."""
from hypothesis import strategies as st

from asyncfix import FMsg, FTag
from asyncfix.connection import ConnectionState
from asyncfix.errors import EncodingError, FIXConnectionError, FIXError
from asyncfix.journaler import Journaler
from asyncfix.message import FIXMessage, MessageDirection
from vlib.hyp import run_given
from vlib.reffix import reassemble, ref_check_frame, ref_get, ref_parse
from vlib.runner import derive_seed
from vlib.sess import Bench

PROPERTY = "C05"
LEVEL = "exploration"
RULE = (
    "Hypothesis operation lists (<=25 quick, <=60 thorough) over one real endpoint (both roles) whose journal starts at drawn "
    "counters (1, 2, 999, 2^31-1, 2^31, 2^62 ...): application sends of every class (NewOrderSingle with and without groups, a message with a repeating group the protocol table does not map, "
    "messages with a non-ASCII value alone or behind a group (must be refused with EncodingError like a refused send), a received message whose "
    "repeated tag the decoder marked as not encodable, forwarded without the framing tags (must fail with a FIXError, consuming nothing), forwarded "
    "message objects that still carry a stale MsgSeqNum / PossDupFlag=N / foreign CompIDs, "
    "Heartbeat, TestRequest through send_msg (must be refused) and through send_test_req, Logon, Logout, ResendRequest, Reject, "
    "SequenceReset and PossDup retransmissions carrying their own number), in every state reached (before Logon, after Logon, "
    "awaiting a resend, disconnected); inbound frames that make the library send (Logon, TestRequest, a gap, a peer ResendRequest "
    "over a replayable range, a too-low number, a wrong CompID); link break (EOF / reset / OSError on read, or a drain that fails after the "
    "frame was written) and reconnect. After every operation: the new frames "
    "(no PossDupFlag, not SequenceReset) written in the step continue the model counter without hole or repeat, "
    "recover_msg(OUTBOUND, n) returns exactly the bytes written, live next_num_out and the stored one (second load path) equal "
    "last+1; a send that raised FIXConnectionError (or EncodingError for a non-ASCII value) wrote nothing, left no row and moved no counter. Non-trivial = history with >=1 "
    "refused send and >=1 library-initiated send; distinct by (role, counters, op list)."
)
ASSUMPTIONS = [
    "FREE: numbers of SequenceReset and PossDup frames sent by the application (they carry their own); the stored counter between such a send and the next new message",
    "journal read back through a second load path (create_or_load on the same journal)",
]
STARTS = [1, 2, 7, 999, 2**31 - 1, 2**31, 2**62]
SEND = ["D", "Dg", "0", "1", "A", "5", "2", "3", "4own", "PD", "D43N", "D34", "Dug", "Dna", "Dgna", "Dfw"]
INB = ["logon", "TR", "GAP", "RR", "HB", "LOW", "BADCOMP", "APP"]
op = st.one_of(
    st.tuples(st.just("send"), st.sampled_from(SEND)),
    st.tuples(st.just("send"), st.sampled_from(SEND)),
    st.tuples(st.just("send"), st.sampled_from(["D", "Dg", "0", "1"])),
    st.tuples(st.just("send_test_req")),
    st.tuples(st.just("inbound"), st.sampled_from(["TR", "GAP", "RR", "HB", "APP", "TR"])),
    st.tuples(st.just("inbound"), st.sampled_from(["logon", "TR", "RR", "APP"])),
    st.tuples(st.just("send"), st.sampled_from(SEND)),
    st.tuples(st.just("inbound"), st.sampled_from(INB)),
    st.tuples(st.just("inbound"), st.sampled_from(["logon", "TR", "RR", "APP", "GAP"])),
    st.tuples(st.just("inbound"), st.just("logon")),
    st.sampled_from([("break",), ("reconnect",), ("reconnect",), ("reconnect+logon",), ("reconnect+logon",), ("send_test_req",)]),
)
history = st.tuples(st.sampled_from(["acceptor", "initiator"]), st.sampled_from(STARTS), st.sampled_from([1, 5, 2**31]), st.booleans(), st.lists(op, min_size=8, max_size=60))


def make_msg(cls, uid, N):
    if cls in ("D", "Dg"):
        m = FIXMessage(FMsg.NEWORDERSINGLE, {11: f"c{uid}", 55: "SYM", 54: 1, 38: 10})
        if cls == "Dg":
            m.set_group(453, [{448: "p1", 447: "D", 452: 1}, {448: "p2", 447: "D", 452: 3}])
        return m
    if cls == "Dug":
        # a repeating group the protocol table does not map: encodes fine, but its journaled copy cannot be re-encoded for a replay
        m = FIXMessage("V", {262: f"r{uid}", 263: 1, 264: 0})
        m.set_group(20100, [{20101: "a"}, {20101: "b"}])
        return m
    if cls in ("Dna", "Dgna"):
        # a value that is not ASCII (refused with EncodingError before a number is allocated), alone or behind a repeating group
        m = FIXMessage(FMsg.NEWORDERSINGLE, {11: f"n{uid}"})
        if cls == "Dgna":
            m.set_group(453, [{448: "p1", 447: "D", 452: 1}])
        m.set(58, "caf\u00e9")
        return m
    if cls == "Dfw":
        # a RECEIVED message forwarded by the application (framing tags stripped): the decoder marked its repeated tag 20101
        # (a group the protocol table does not map) as not encodable, so the send must fail - without consuming a number
        from asyncfix.codec import Codec
        from asyncfix.protocol import FIXProtocol44
        from vlib.reffix import ref_msg

        got = Codec(FIXProtocol44()).decode(ref_msg("D", "X", "Y", 5, [(11, f"fw{uid}"), (20100, 2), (20101, "a"), (20101, "b")]), silent=True)[0]
        return FIXMessage(got.msg_type, {t: v for t, v in got.tags.items() if t not in ("8", "9", "10", "35", "34", "49", "56", "52")})
    if cls == "D43N":
        # a forwarded / echoed message object: explicit PossDupFlag=N and a stale MsgSeqNum tag -> still a NEW message
        return FIXMessage(FMsg.NEWORDERSINGLE, {11: f"e{uid}", 43: "N", 34: max(N - 1, 1), 52: "20200101-00:00:00.000"})
    if cls == "D34":
        return FIXMessage(FMsg.EXECUTIONREPORT, {37: "o", 17: f"x{uid}", 34: max(N - 3, 1), 49: "SOMEONE", 56: "ELSE"})
    if cls == "0":
        return FIXMessage(FMsg.HEARTBEAT)
    if cls == "1":
        return FIXMessage(FMsg.TESTREQUEST, {112: f"t{uid}"})
    if cls == "A":
        return FIXMessage(FMsg.LOGON, {98: 0, 108: 30})
    if cls == "5":
        return FIXMessage(FMsg.LOGOUT, {58: "bye"})
    if cls == "2":
        return FIXMessage(FMsg.RESENDREQUEST, {7: 1, 16: 0})
    if cls == "3":
        return FIXMessage(FMsg.REJECT, {45: 1, 58: "no"})
    # own-number sends refer to numbers already used (an application-level gap fill / retransmission of the
    # past); claiming a number that is still to be allocated would be the caller's error, not the library's
    if cls == "4own":
        return None if N < 2 else FIXMessage(FMsg.SEQUENCERESET, {34: max(N - 2, 1), 36: N, 123: "Y"})
    if cls == "PD":
        return None if N < 2 else FIXMessage(FMsg.NEWORDERSINGLE, {34: N - 1, 43: "Y", 122: "20230101-00:00:00.000", 11: f"dup{uid}"})
    raise ValueError(cls)


def run_history(acc, role, n_out, n_in, logon_first, ops, maxlen, frame_hook=None):
    ops = ops[:maxlen]
    case = {"role": role, "n_out": n_out, "n_in": n_in, "logon_first": logon_first, "ops": [list(o) for o in ops]}
    j = Journaler()
    b = Bench(role, "active" if logon_first else "connected", next_in=n_in, next_out=n_out, journal=j)
    ep = b.ep
    flags = set()
    refused = libsent = 0

    def bad(sig, detail):
        acc.violation("C05:" + sig, detail + f" | role={role} start_out={n_out}", case)

    try:
        # model counter: everything written so far must already be consecutive from n_out
        M = n_out
        stale_store = False
        uid = 0
        pos = 0

        def settle(step, allow_own):
            nonlocal M, pos, stale_store
            frames = reassemble([x for _, x in b.link.writers[b.side].written[pos:]])
            pos = len(b.link.writers[b.side].written)
            new_in_step = 0
            for fr in frames:
                if frame_hook:
                    frame_hook(fr, step)
                r = ref_check_frame(fr)
                if r:
                    bad("wire-malformed", f"{step}: {r}: {fr!r}")
                    continue
                p = ref_parse(fr)
                mt, n = ref_get(p, 35), int(ref_get(p, 34))
                own = ref_get(p, 43) == "Y" or mt == "4"
                if own:
                    continue
                new_in_step += 1
                if n != M:
                    bad("numbering/" + ("hole" if n > M else "repeat"), f"{step}: new {mt} frame left with MsgSeqNum {n}, expected {M}")
                    M = n
                try:
                    row = ep._journaler.recover_msg(ep._session, MessageDirection.OUTBOUND, n)
                except Exception as e:
                    row = e
                if row != fr:
                    bad("journal/not-under-its-number", f"{step}: recover_msg(OUTBOUND, {n}) = {row!r:.200}, bytes sent = {fr!r:.200}")
                M += 1
            if new_in_step:
                stale_store = False
            live = ep._session.next_num_out
            if live != M:
                bad("counter/live", f"{step}: live next_num_out={live}, last new number sent + 1 = {M}")
                M = live
            if not stale_store:
                try:
                    stored = ep._journaler.create_or_load(ep._session.target_comp_id, ep._session.sender_comp_id).next_num_out
                except Exception as e:
                    stored = e
                if stored != M:
                    bad("counter/stored", f"{step}: stored next_num_out={stored!r}, expected {M}")
            return new_in_step

        settle("setup", False)
        link_no = 0
        for i, o in enumerate(ops):
            step = f"op#{i} {o}"
            k = o[0]
            uid += 1
            if k == "send":
                cls = o[1]
                msg = make_msg(cls, uid, ep._session.next_num_out)
                if msg is None:
                    continue
                st0 = ep.connection_state
                w0 = len(b.link.writers[b.side].written)
                n0 = ep._session.next_num_out
                rows0 = len(list(ep._journaler.recover_messages(ep._session, MessageDirection.OUTBOUND, 0, 2**63 - 1)))
                r = b.w.call(ep.send_msg(msg))
                if r[0] == "exc":
                    e = r[1]
                    if isinstance(e, FIXConnectionError) or (isinstance(e, EncodingError) and cls in ("Dna", "Dgna")) or (isinstance(e, FIXError) and cls == "Dfw"):
                        refused += 1
                        w1 = len(b.link.writers[b.side].written)
                        rows1 = len(list(ep._journaler.recover_messages(ep._session, MessageDirection.OUTBOUND, 0, 2**63 - 1)))
                        if w1 != w0:
                            bad(f"refused-send-wrote/{cls}", f"{step} in {st0.name}: raised {type(e).__name__} but wrote {w1 - w0} frame(s)")
                        if ep._session.next_num_out != n0:
                            bad(f"refused-send-consumed-number/{cls}", f"{step} in {st0.name}: next_num_out {n0} -> {ep._session.next_num_out}")
                        if rows1 != rows0:
                            bad(f"refused-send-journaled/{cls}", f"{step} in {st0.name}: journal rows {rows0} -> {rows1}")
                        acc.klass(f"refused/{st0.name}")
                    elif cls in ("PD", "4own"):
                        acc.klass(f"own-number-send-raised/{type(e).__name__}")  # FREE (duplicate number etc.)
                        stale_store = True  # it may have been journaled under its own (old) number before it failed
                    elif isinstance(e, (ConnectionError, OSError)):
                        acc.klass("send-failed-transport")
                    else:
                        bad(f"send-raises/{cls}/{type(e).__name__}", f"{step} in {st0.name}: {type(e).__name__}: {e}")
                elif r[0] == "pending":
                    raise RuntimeError("send blocked without back-pressure")
                else:
                    if cls in ("PD", "4own"):
                        stale_store = True
                    if st0 <= ConnectionState.DISCONNECTED_BROKEN_CONN:
                        bad(f"send-accepted-while-disconnected/{cls}", f"{step}: accepted in {st0.name}")
                settle(step, cls in ("PD", "4own"))
            elif k == "send_test_req":
                r = b.w.call(ep.send_test_req())
                if r[0] == "exc" and not isinstance(r[1], (FIXConnectionError, ConnectionError, OSError)):
                    bad(f"send_test_req-raises/{type(r[1]).__name__}", f"{step}: {r[1]}")
                if r[0] == "exc" and isinstance(r[1], FIXConnectionError):
                    refused += 1
                settle(step, False)
            elif k == "inbound":
                if b.disconnected() or not b.link.alive:
                    continue
                kind = o[1]
                E = ep._session.next_num_in
                if kind == "logon":
                    fr = b.frame("A", E, [(98, 0), (108, 30)])
                elif kind == "TR":
                    fr = b.frame("1", E, [(112, f"q{uid}")])
                elif kind == "GAP":
                    fr = b.frame("D", E + 2, [(11, "gap")])
                elif kind == "RR":
                    lo = max(ep._session.next_num_out - 4, 1)
                    fr = b.frame("2", E, [(7, lo), (16, 0 if uid % 2 else ep._session.next_num_out - 1)])
                    flags.add("peer-resend-request")
                elif kind == "HB":
                    fr = b.frame("0", E)
                elif kind == "LOW":
                    fr = b.frame("0", max(E - 1, 1))
                elif kind == "BADCOMP":
                    fr = b.frame("0", E, sender="EVIL")
                else:
                    fr = b.frame("D", E, [(11, f"in{uid}")])
                b.feed(fr)
                n_new = settle(step, False)
                libsent += n_new
            elif k == "break":
                if b.link.alive:
                    b.link.break_(["eof", "reset", "oserror", "drain"][uid % 4])
                    b.w.idle()
                    b.w.advance(1.01)
                    flags.add("break")
                settle(step, False)
            elif k in ("reconnect", "reconnect+logon"):
                if not b.disconnected() and not b.link.alive:
                    # a failing drain does not disconnect by itself: the OS reports the dead peer on read eventually
                    b.link.readers[b.side].feed_eof()
                    b.w.idle()
                    b.w.advance(1.01)
                    settle(step + " (eof)", False)
                if not b.disconnected():
                    continue
                link_no += 1
                if role == "initiator":
                    b.w.connect_client()
                    b.link = b.w.link
                else:
                    b.link = b.w.attach_server_only()
                pos = 0
                libsent += settle(step, False)
                flags.add("reconnect")
                if k == "reconnect+logon":
                    b.feed(b.frame("A", ep._session.next_num_in, [(98, 0), (108, 30)]))
                    libsent += settle(step + " logon", False)
        bf = None
    finally:
        b.close()
    nt = refused > 0 and libsent > 0
    acc.case((role, n_out, n_in, logon_first, tuple(map(tuple, ops))) if nt else None,
             cls=[f"role={role}"] + sorted(flags) + [f"refused={min(refused, 3)}", f"libsent={min(libsent, 3)}"],
             sample={"role": role, "start_out": n_out, "ops": [list(o) for o in ops][:14], "refused": refused, "library_initiated_new_frames": libsent}
             if nt and len(acc.samples) < 4 else None)


def hyp_shard(acc, n, seed, maxlen):
    run_given(history, lambda x: run_history(acc, x[0], x[1], x[2], x[3], x[4], maxlen), n, seed)


FIXED = [
    ("acceptor", 1, 1, False, [("send", "D"), ("inbound", "logon"), ("send", "D"), ("send", "1"), ("inbound", "TR"), ("send", "Dg"), ("inbound", "RR"), ("send", "D"),
                               ("inbound", "RR"), ("send", "0"), ("inbound", "GAP"), ("send", "D"), ("inbound", "LOW"), ("send", "D"), ("reconnect",), ("send", "D"),
                               ("inbound", "logon"), ("send", "D")]),
    ("initiator", 2**31 - 1, 5, False, [("send", "D"), ("send", "5"), ("inbound", "logon"), ("send", "Dg"), ("send_test_req",), ("send_test_req",), ("inbound", "RR"),
                                        ("send", "D"), ("break",), ("send", "D"), ("reconnect",), ("send", "D"), ("inbound", "logon"), ("send", "D"), ("send", "PD"), ("send", "D")]),
]


def fixed(acc):
    for role, no, ni, lf, ops in FIXED:
        run_history(acc, role, no, ni, lf, ops, 100)
        acc.klass("fixed")


def plan(tier, seed):
    n, k, ml = (500, 10, 25) if tier == "quick" else (5000, 14, 60)
    return [("fixed", {})] + [("hyp_shard", {"n": n, "seed": derive_seed(seed, PROPERTY, i), "maxlen": ml}) for i in range(k)]


def replay(acc, case):
    run_history(acc, case["role"], case["n_out"], case["n_in"], case["logon_first"], [tuple(o) for o in case["ops"]], 10**6)
