"""Shared runner: sharding, accumulation, evidence, known findings, replay.

A check module (checks/cNN.py) provides:
    PROPERTY   = "C01"
    LEVEL      = "exploration" | "fault_enumeration"
    RULE       = text for evidence.coverage.rule
    ASSUMPTIONS = [..]
    def plan(tier, seed) -> list[(func_name, kwargs)]     # one entry per shard
    def <func_name>(acc, **kwargs)                        # runs a shard, reports into acc
    def replay(acc, case)                                 # re-executes one saved case
Optional: EXHAUSTIVE(tier) -> bool

Exit codes: 0 held (known findings printed), 1 unlisted violation, 2 harness error.
"""
from __future__ import annotations

import hashlib
import importlib
import json
import multiprocessing
import os
import re
import sys
import time
import traceback
from collections import Counter

VERIF = os.path.dirname(os.path.dirname(os.path.abspath(__file__)))
SRC = os.environ.get("ASYNCFIX_SRC", "/repo")
OUT = os.environ.get("VERIF_OUT", VERIF)  # evidence/ and replays/ go here (mutant runs use a scratch dir)
MAX_SAMPLES = 8
MAX_DISTINCT = 2_000_000  # cap on stored signatures per run (counted conservatively)


def setup_import_path():
    """Import asyncfix from the working tree under test (default /repo)."""
    if SRC not in sys.path[:1]:
        sys.path.insert(0, SRC)
    if VERIF not in sys.path:
        sys.path.insert(1, VERIF)
    deps = os.path.join(VERIF, ".deps")
    if os.path.isdir(deps) and deps not in sys.path:
        sys.path.append(deps)
    import asyncfix  # noqa

    got = os.path.realpath(os.path.dirname(os.path.dirname(asyncfix.__file__)))
    if got != os.path.realpath(SRC):
        raise RuntimeError(f"asyncfix imported from {got}, expected {SRC}")
    import logging

    logging.disable(logging.CRITICAL)


def derive_seed(seed: int, *parts) -> int:
    h = hashlib.sha256(("|".join([str(seed)] + [str(p) for p in parts])).encode())
    return int.from_bytes(h.digest()[:8], "big") >> 1


def sig_hash(obj) -> int:
    if not isinstance(obj, (bytes, str)):
        obj = repr(obj)
    if isinstance(obj, str):
        obj = obj.encode("utf-8", "backslashreplace")
    return int.from_bytes(hashlib.blake2b(obj, digest_size=8).digest(), "big")


def jsonable(x):
    if isinstance(x, bytes):
        return {"__bytes__": x.decode("latin-1")}
    if isinstance(x, (list, tuple)):
        return [jsonable(i) for i in x]
    if isinstance(x, dict):
        return {str(k): jsonable(v) for k, v in x.items()}
    if isinstance(x, (str, int, float, bool)) or x is None:
        return x
    return repr(x)


def unjson(x):
    if isinstance(x, dict):
        if set(x.keys()) == {"__bytes__"}:
            return x["__bytes__"].encode("latin-1")
        return {k: unjson(v) for k, v in x.items()}
    if isinstance(x, list):
        return [unjson(i) for i in x]
    return x


class Acc:
    """Accumulates what one shard (or the merged run) covered and found."""

    def __init__(self):
        self.evaluations = 0
        self.nontrivial: set[int] = set()
        self.nontrivial_overflow = 0
        self.classes: Counter = Counter()
        self.excluded: Counter = Counter()
        self.samples: list = []
        self.violations: dict[str, dict] = {}
        self.notes: list[str] = []
        self.extra: dict = {}

    # -- reporting API used by checks
    def case(self, nontrivial_sig=None, cls=None, sample=None, n=1):
        """Count one executed case. nontrivial_sig: hashable identity if non-trivial."""
        self.evaluations += n
        if nontrivial_sig is not None:
            if len(self.nontrivial) < MAX_DISTINCT:
                self.nontrivial.add(sig_hash(nontrivial_sig))
            else:
                self.nontrivial_overflow += 1
        if cls is not None:
            if isinstance(cls, (list, tuple, set, frozenset)):
                for c in cls:
                    self.classes[c] += 1
            else:
                self.classes[cls] += 1
        if sample is not None and len(self.samples) < MAX_SAMPLES:
            self.samples.append(jsonable(sample))

    def klass(self, cls, n=1):
        self.classes[cls] += n

    def exclude(self, cls, n=1):
        self.excluded[cls] += n

    def violation(self, sig: str, detail: str, case):
        """Record a violation of oracle clause `sig` on `case` (smallest case kept)."""
        case_j = jsonable(case)
        size = len(json.dumps(case_j))
        cur = self.violations.get(sig)
        if cur is None:
            self.violations[sig] = {
                "detail": detail[:2000],
                "case": case_j,
                "size": size,
                "count": 1,
            }
        else:
            cur["count"] += 1
            if size < cur["size"]:
                cur.update(detail=detail[:2000], case=case_j, size=size)

    def note(self, s):
        if len(self.notes) < 50:
            self.notes.append(s)

    # -- merging
    def export(self):
        return {
            "evaluations": self.evaluations,
            "nontrivial": self.nontrivial,
            "nontrivial_overflow": self.nontrivial_overflow,
            "classes": dict(self.classes),
            "excluded": dict(self.excluded),
            "samples": self.samples,
            "violations": self.violations,
            "notes": self.notes,
            "extra": self.extra,
        }

    def merge(self, d):
        self.evaluations += d["evaluations"]
        self.nontrivial |= d["nontrivial"]
        self.nontrivial_overflow += d["nontrivial_overflow"]
        self.classes.update(d["classes"])
        self.excluded.update(d["excluded"])
        for s in d["samples"]:
            if len(self.samples) < MAX_SAMPLES:
                self.samples.append(s)
        for sig, v in d["violations"].items():
            cur = self.violations.get(sig)
            if cur is None:
                self.violations[sig] = dict(v)
            else:
                cur["count"] += v["count"]
                if v["size"] < cur["size"]:
                    cnt = cur["count"]
                    cur.update(v)
                    cur["count"] = cnt
        for n in d["notes"]:
            self.note(n)
        for k, v in d["extra"].items():
            if isinstance(v, (int, float)) and isinstance(self.extra.get(k), (int, float)):
                self.extra[k] += v
            else:
                self.extra.setdefault(k, v)


def load_known(pid: str):
    known = {}
    path = os.path.join(VERIF, "KNOWN_FINDINGS.txt")
    if not os.path.exists(path):
        return known
    for line in open(path, encoding="utf-8"):
        line = line.strip()
        m = re.match(r"known:\s+property=(\S+)\s+sig=(\S+)\s*(.*)$", line)
        if m and m.group(1) == pid:
            known[m.group(2)] = m.group(3)
    return known


def _run_shard(args):
    pid, fn, kwargs = args
    try:
        setup_import_path()
        mod = importlib.import_module(f"checks.{pid.lower()}")
        acc = Acc()
        getattr(mod, fn)(acc, **kwargs)
        return ("ok", acc.export())
    except BaseException:  # noqa
        return ("err", f"shard {fn}{kwargs}:\n{traceback.format_exc()}")


def _safe(s):
    return re.sub(r"[^A-Za-z0-9_.-]+", "_", s)[:120]


def run_check(pid: str, tier: str, seed: int, replay_path: str | None = None) -> int:
    t0 = time.time()
    setup_import_path()
    if sys.version_info[:2] != (3, 12):
        print(f"HARNESS-ERROR: python 3.12 required, got {sys.version}")
        return 2
    mod = importlib.import_module(f"checks.{pid.lower()}")
    known = load_known(pid)
    total = Acc()

    if replay_path:
        doc = json.load(open(replay_path, encoding="utf-8"))
        case = unjson(doc["case"])
        mod.replay(total, case)
        if total.violations:
            for sig, v in total.violations.items():
                print(f"REPRODUCED property={pid} sig={sig} {v['detail'][:300]}")
                print(f"VIOLATION property={pid} replay={replay_path}")
            return 1
        print(f"replay: no violation reproduced for {replay_path}")
        return 0

    plan = mod.plan(tier, seed)
    jobs = [(pid, fn, kw) for fn, kw in plan]
    nproc = int(os.environ.get("VERIF_PROCS", "16"))
    nproc = max(1, min(nproc, len(jobs)))
    errors = []
    if nproc == 1:
        results = [_run_shard(j) for j in jobs]
    else:
        ctx = multiprocessing.get_context("fork")
        with ctx.Pool(nproc, maxtasksperchild=1) as pool:  # every shard in a fresh process
            results = pool.map(_run_shard, jobs, chunksize=1)
    for st, payload in results:
        if st == "ok":
            total.merge(payload)
        else:
            errors.append(payload)
    if errors:
        for e in errors[:5]:
            print("HARNESS-ERROR:", e)
        return 2

    wall = time.time() - t0
    # classify violations
    unlisted = {s: v for s, v in total.violations.items() if s not in known}
    listed = {s: v for s, v in total.violations.items() if s in known}
    rdir = os.path.join(OUT, "replays", pid)
    os.makedirs(rdir, exist_ok=True)
    lines = []
    for sig, v in sorted(listed.items()):
        lines.append(
            f"KNOWN-FINDING: property={pid} sig={sig} {known[sig]} [seen {v['count']}x]"
        )
    rc = 0
    for sig, v in sorted(unlisted.items()):
        path = os.path.join(rdir, _safe(sig) + ".json")
        with open(path, "w", encoding="utf-8") as f:
            json.dump(
                {"property": pid, "sig": sig, "detail": v["detail"], "case": v["case"]},
                f,
                indent=1,
            )
        rel = os.path.relpath(path, OUT)
        lines.append(f"  sig={sig} count={v['count']} detail={v['detail'][:400]}")
        lines.append(f"VIOLATION property={pid} replay={rel}")
        rc = 1

    exhaustive = bool(getattr(mod, "EXHAUSTIVE", lambda t: False)(tier))
    rule = mod.RULE if isinstance(mod.RULE, str) else mod.RULE(tier)
    cov = {
        "evaluations": total.evaluations,
        "distinct_nontrivial": len(total.nontrivial),
        "rule": rule,
        "samples": total.samples[:MAX_SAMPLES],
        "exhaustive": exhaustive,
        "classes": dict(sorted(total.classes.items())),
        "excluded_by_construction": dict(sorted(total.excluded.items())),
        "known_findings_seen": {s: v["count"] for s, v in sorted(listed.items())},
        "shards": len(jobs),
    }
    if total.nontrivial_overflow:
        cov["distinct_nontrivial_uncounted_beyond_cap"] = total.nontrivial_overflow
    if total.notes:
        cov["notes"] = total.notes
    cov.update(total.extra)
    ev = {
        "property_id": pid,
        "tier": tier,
        "seed": seed,
        "level": mod.LEVEL,
        "coverage": cov,
        "assumptions": list(getattr(mod, "ASSUMPTIONS", [])),
        "wall_s": round(wall, 2),
        "violations": len(unlisted),
    }
    edir = os.path.join(OUT, "evidence")
    os.makedirs(edir, exist_ok=True)
    with open(os.path.join(edir, f"{pid}.json"), "w", encoding="utf-8") as f:
        json.dump(ev, f, indent=1, sort_keys=False)
        f.write("\n")

    for ln in lines:
        print(ln)
    print(
        f"[{pid}] tier={tier} seed={seed} evaluations={total.evaluations} "
        f"distinct_nontrivial={len(total.nontrivial)} violations={len(unlisted)} "
        f"known={len(listed)} wall={wall:.1f}s"
    )
    if rc == 0 and (not total.samples or total.evaluations == 0 or len(total.nontrivial) < 2):
        print("HARNESS-ERROR: run covered nothing non-trivial")
        return 2
    return rc


def main(argv=None):
    import argparse

    ap = argparse.ArgumentParser()
    ap.add_argument("property")
    ap.add_argument("--tier", default=os.environ.get("VERIF_TIER", "quick"))
    ap.add_argument("--seed", type=int, default=None)
    ap.add_argument("--replay", default=None)
    a = ap.parse_args(argv)
    seed = a.seed if a.seed is not None else int(os.environ.get("VERIF_SEED", "1") or 1)
    tier = a.tier if a.tier in ("quick", "thorough") else "quick"
    try:
        rc = run_check(a.property.upper(), tier, seed, a.replay)
    except SystemExit:
        raise
    except BaseException:  # noqa
        traceback.print_exc()
        print("HARNESS-ERROR: runner failed")
        rc = 2
    sys.stdout.flush()
    os._exit(rc)


if __name__ == "__main__":
    main()
