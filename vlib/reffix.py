"""Independent reference FIX 4.4 framer / parser / encoder (bytes level).

Written from the FIX 4.4 session-layer text ("Message format": BeginString(8),
BodyLength(9), MsgType(35) first and in that order; CheckSum(10) last, three
digits, sum of all preceding bytes mod 256; BodyLength = number of bytes after
the BodyLength field's SOH up to and including the SOH preceding the CheckSum
field).  Shares no code with asyncfix/codec.py.
"""
SOH = b"\x01"


def digits_equal(b, n):
    """Does the ASCII digit string b denote the integer n? (no int(): Python refuses to convert more than 4300 digits)"""
    return (b.lstrip(b"0") or b"0") == str(n).encode()


def ref_checksum(data: bytes) -> bytes:
    return b"%03d" % (sum(data) % 256)


def ref_encode(msgtype, fields, begin=b"FIX.4.4", pad=0) -> bytes:
    """fields: list of (tag, value) in wire order (header fields included by caller)."""

    def b(x):
        return x if isinstance(x, bytes) else str(x).encode("latin-1")

    body = b"35=" + b(msgtype) + SOH
    for t, v in fields:
        body += b(t) + b"=" + b(v) + SOH
    head = b"8=" + begin + SOH + b"9=" + str(len(body)).zfill(pad).encode() + SOH  # pad: fixed-width, zero-padded BodyLength
    pre = head + body
    return pre + b"10=" + ref_checksum(pre) + SOH


def ref_msg(msgtype, sender, target, seq, fields=(), sending_time=b"20230101-00:00:00.000",
            possdup=False, orig_time=None, pad=0):
    """A complete frame with a standard header, as a counterparty would send it."""
    hdr = [(49, sender), (56, target), (34, seq), (52, sending_time)]
    if possdup:
        hdr.append((43, "Y"))
        hdr.append((122, orig_time or sending_time))
    return ref_encode(msgtype, hdr + list(fields), pad=pad)


def ref_check_frame(frame: bytes, begin=b"FIX.4.4"):
    """Returns None if `frame` is exactly one well-formed FIX frame, else a reason
    string starting with the failed clause name."""
    if not isinstance(frame, (bytes, bytearray)):
        return "type: not bytes"
    frame = bytes(frame)
    if not frame.endswith(SOH):
        return "trailer: frame does not end with SOH"
    parts = frame[:-1].split(SOH)
    if len(parts) < 4:
        return "structure: fewer than 4 fields"
    fields = []
    for i, p in enumerate(parts):
        if b"=" not in p:
            return f"field: field #{i} has no '=': {p[:30]!r}"
        t, v = p.split(b"=", 1)
        if not t.isdigit() or not t.isascii():
            return f"field: non-numeric tag in field #{i}: {p[:30]!r}"
        if t[0:1] == b"0":
            return f"field: tag with leading zero in field #{i}: {p[:30]!r}"
        if v == b"":
            return f"field: empty value in field #{i}: {p[:30]!r}"
        fields.append((t, v))
    if fields[0] != (b"8", begin):
        return f"order: first field is {parts[0][:30]!r}, not 8={begin.decode()}"
    if fields[1][0] != b"9":
        return f"order: second field is {parts[1][:30]!r}, not BodyLength"
    if fields[2][0] != b"35":
        return f"order: third field is {parts[2][:30]!r}, not MsgType"
    bl = fields[1][1]
    if not (bl.isdigit() and bl.isascii()):
        return f"bodylength: not a non-negative integer: {bl!r}"
    t, v = fields[-1]
    if t != b"10":
        return f"trailer: last field is {parts[-1][:30]!r}, not CheckSum"
    if not (len(v) == 3 and v.isdigit() and v.isascii()):
        return f"trailer: CheckSum is not three digits: {v!r}"
    for t2, _ in fields[:-1]:
        if t2 == b"10":
            return "trailer: CheckSum field before the end"
    head_len = len(parts[0]) + 1 + len(parts[1]) + 1
    body_len = len(frame) - head_len - (len(parts[-1]) + 1)
    if not digits_equal(bl, body_len):
        return f"bodylength: declared {bl[:30]!r} actual {body_len}"
    pre = frame[: len(frame) - len(parts[-1]) - 1]
    if ref_checksum(pre) != v:
        return f"checksum: declared {v!r} actual {ref_checksum(pre)!r}"
    return None


def ref_parse(frame: bytes):
    """Flat list of (tag:str, value:str) without any group logic (latin-1 text)."""
    out = []
    for p in bytes(frame).split(SOH):
        if not p:
            continue
        t, _, v = p.partition(b"=")
        out.append((t.decode("latin-1"), v.decode("latin-1")))
    return out


def ref_get(parsed, tag, default=None):
    tag = str(tag)
    for t, v in parsed:
        if t == tag:
            return v
    return default


def ref_split_stream(data: bytes):
    """Splits a byte stream consisting only of well-formed frames into frames
    (by BodyLength). Returns (frames, rest)."""
    frames = []
    pos = 0
    while pos < len(data):
        if not data.startswith(b"8=", pos):
            break
        i1 = data.find(SOH, pos)
        if i1 < 0:
            break
        i2 = data.find(SOH, i1 + 1)
        if i2 < 0 or not data.startswith(b"9=", i1 + 1):
            break
        try:
            bl = int(data[i1 + 3 : i2])
        except ValueError:
            break
        end = i2 + 1 + bl + 7
        if end > len(data):
            break
        frames.append(data[pos:end])
        pos = end
    return frames, data[pos:]


def reassemble(writes):
    """The wire is a byte stream: an implementation may hand one frame to the transport in several writes. Consecutive writes that
    are not frames by themselves but whose concatenation is a sequence of well-formed frames are merged into those frames;
    everything else is returned as it was written (and judged as such)."""
    out, buf = [], b""
    for w in writes:
        w = bytes(w)
        if not buf and ref_check_frame(w) is None:
            out.append(w)
            continue
        buf += w
        frames, rest = ref_split_stream(buf)
        if frames and all(ref_check_frame(f) is None for f in frames):
            out += frames
            buf = rest
    if buf:
        out.append(buf)
    return out


def ref_check_all(frame: bytes, begin=b"FIX.4.4"):
    """Set of failed clause names among {structure, field, order, bodylength, trailer,
    checksum}; empty set = well-formed. Unlike ref_check_frame it does not stop at the
    first failure (as far as the later clauses are still meaningful)."""
    bad = set()
    frame = bytes(frame)
    if not frame.endswith(SOH):
        bad.add("trailer")
    parts = frame.rstrip(SOH).split(SOH) if frame.endswith(SOH) else frame.split(SOH)
    if frame.endswith(SOH):
        parts = frame[:-1].split(SOH)
    if len(parts) < 4:
        bad.add("structure")
        return bad
    fields = []
    for p in parts:
        t, eq, v = p.partition(b"=")
        if not eq or not (t.isdigit() and t.isascii()) or v == b"":
            bad.add("field")
        fields.append((t, v))
    if fields[0] != (b"8", begin) or fields[1][0] != b"9" or fields[2][0] != b"35":
        bad.add("order")
    t, v = fields[-1]
    if t != b"10" or not (len(v) == 3 and v.isdigit() and v.isascii()):
        bad.add("trailer")
    if any(t2 == b"10" for t2, _ in fields[:-1]):
        bad.add("trailer")
    bl = fields[1][1]
    head_len = len(parts[0]) + 1 + len(parts[1]) + 1
    body_len = len(frame) - head_len - (len(parts[-1]) + 1)
    if not (bl.isdigit() and bl.isascii()) or not digits_equal(bl, body_len):
        bad.add("bodylength")
    pre = frame[: len(frame) - len(parts[-1]) - 1]
    if fields[-1][0] == b"10" and ref_checksum(pre) != v:
        try:
            ok = int(v) == int(ref_checksum(pre)) and "trailer" in bad
        except ValueError:
            ok = False
        if not ok:
            bad.add("checksum")
    return bad
