"""Single-order exchange simulator for C17 (and a report builder shared with C20).

Performs only transitions of the FIX 4.4 Volume 4 order state change matrices (A vanilla, B cancel,
C cancel/replace, D unsolicited) and answers every request it consumes.  Reports are built with
FIXMessage directly.  OrdStatus of a report follows the FIX precedence rule (Pending Cancel > Pending
Replace > ... > Filled > Suspended > Canceled/Expired > Partially Filled > New).
"""
from asyncfix import FMsg, FTag
from asyncfix.message import FIXMessage

NEW, PARTIAL, FILLED, CANCELED, REJECTED, EXPIRED, SUSPENDED, PENDING_NEW = "0", "1", "2", "4", "8", "C", "9", "A"
PENDING_CANCEL, PENDING_REPLACE = "6", "E"
FINISHED = {FILLED, CANCELED, REJECTED, EXPIRED}
# ExecType
X_NEW, X_PNEW, X_REJ, X_TRADE, X_PCXL, X_CXL, X_PREP, X_REP, X_EXP, X_SUSP, X_RESTATED = "0", "A", "8", "F", "6", "4", "E", "5", "C", "9", "D"


class Exchange:
    def __init__(self, symbol="T", side="1"):
        self.known = False
        self.status = None  # base status (without pending precedence)
        self.suspended = False
        self.live = None  # ClOrdID under which the order is live
        self.qty = 0.0
        self.price = 0.0
        self.cum = 0.0
        self.pending = None  # acknowledged-but-undecided request: dict(kind, clordid, price, qty)
        self.exec_id = 0
        self.order_id = "X1"
        self.symbol = symbol
        self.side = side
        self.used_ids = set()
        self.answered = []  # ClOrdIDs of requests that got a final answer

    # ---- views
    @property
    def leaves(self):
        if self.status in FINISHED or self.status is None:
            return 0.0
        return max(self.qty - self.cum, 0.0)

    def base_status(self):
        if self.status in (NEW, PARTIAL) and self.suspended:
            return SUSPENDED
        return self.status

    def reported_status(self):
        if self.pending:
            return PENDING_CANCEL if self.pending["kind"] == "cancel" else PENDING_REPLACE
        return self.base_status()

    def finished(self):
        return self.status in FINISHED

    def tradable(self):
        return self.status in (NEW, PARTIAL) and not self.suspended and self.leaves > 0

    def sig(self):
        p = self.pending
        return (self.status, self.suspended, self.live, self.qty, self.price, round(self.cum, 6), (p["kind"], p["clordid"], p["price"], p["qty"]) if p else None)

    # ---- report fabrication
    def _er(self, exec_type, ord_status=None, last_qty=None, clordid=None, orig=None, with_px_qty=True):
        self.exec_id += 1
        m = FIXMessage(FMsg.EXECUTIONREPORT)
        m[FTag.OrderID] = self.order_id
        m[FTag.ExecID] = f"E{self.exec_id}"
        m[FTag.ExecType] = exec_type
        m[FTag.OrdStatus] = ord_status if ord_status is not None else self.reported_status()
        if clordid is None:
            if self.pending:
                clordid, orig = self.pending["clordid"], self.live
            else:
                clordid = self.live
        m[FTag.ClOrdID] = clordid
        if orig:
            m[FTag.OrigClOrdID] = orig
        m[FTag.Symbol] = self.symbol
        m[FTag.Side] = self.side
        m[FTag.LeavesQty] = repr(self.leaves)
        m[FTag.CumQty] = repr(self.cum)
        m[FTag.AvgPx] = repr(self.price if self.cum else 0.0)
        if with_px_qty:
            m[FTag.Price] = repr(self.price)
            m[FTag.OrderQty] = repr(self.qty)
        if last_qty is not None:
            m[FTag.LastQty] = repr(last_qty)
            m[FTag.LastPx] = repr(self.price)
        return m

    def _ocr(self, req, status):
        m = FIXMessage(FMsg.ORDERCANCELREJECT)
        m[FTag.OrderID] = self.order_id
        m[FTag.ClOrdID] = req["clordid"]
        m[FTag.OrigClOrdID] = req["orig"]
        m[FTag.OrdStatus] = status
        m[FTag.CxlRejResponseTo] = "1" if req["kind"] == "cancel" else "2"
        m[FTag.CxlRejReason] = "0"
        self.answered.append(req["clordid"])
        return m

    # ---- consuming requests
    @staticmethod
    def parse_request(msg):
        t = str(msg.msg_type)
        if t == str(FMsg.NEWORDERSINGLE):
            return {"kind": "new", "clordid": msg[FTag.ClOrdID], "price": float(msg[FTag.Price]), "qty": float(msg[FTag.OrderQty])}
        kind = "cancel" if t == str(FMsg.ORDERCANCELREQUEST) else "replace"
        r = {"kind": kind, "clordid": msg[FTag.ClOrdID], "orig": msg[FTag.OrigClOrdID], "price": None, "qty": None}
        if kind == "replace":
            r["price"] = float(msg[FTag.Price])
            r["qty"] = float(msg[FTag.OrderQty])
        return r

    def consume(self, req, how):
        """how: for new -> 'pending' | 'ack' | 'reject'; for cancel/replace -> 'pending' | 'accept' | 'reject'.
        Returns the list of reports produced (in order)."""
        if req["kind"] == "new":
            self.known = True
            self.live = req["clordid"]
            self.qty, self.price = req["qty"], req["price"]
            self.status = PENDING_NEW
            if how == "pending":
                return [self._er(X_PNEW)]
            if how == "reject":
                self.status = REJECTED
                return [self._er(X_REJ)]
            self.status = NEW
            return [self._er(X_NEW)]
        # cancel / replace
        if self.finished() or self.status == PENDING_NEW or self.pending is not None:
            # too late / not possible: reject with the current status
            return [self._ocr(req, self.reported_status())]
        if req["kind"] == "replace" and (self.suspended or req["qty"] < self.cum):
            return [self._ocr(req, self.reported_status())]
        if how == "reject":
            return [self._ocr(req, self.reported_status())]
        self.pending = dict(req)
        if how == "pending":
            return [self._er(X_PCXL if req["kind"] == "cancel" else X_PREP)]
        return self.decide(True)

    def decide(self, accept):
        """Final answer to the acknowledged pending request."""
        req = self.pending
        assert req is not None
        if self.finished() or (req["kind"] == "replace" and (req["qty"] < self.cum or self.suspended)):
            accept = False
        if not accept:
            self.pending = None
            return [self._ocr(req, self.reported_status())]
        if req["kind"] == "cancel":
            self.status = CANCELED
            self.suspended = False
            self.pending = None
            self.answered.append(req["clordid"])
            return [self._er(X_CXL, clordid=req["clordid"], orig=req["orig"])]
        # replace
        self.qty, self.price = req["qty"], req["price"]
        if self.cum <= 0:
            self.status = NEW
        elif self.cum < self.qty:
            self.status = PARTIAL
        else:
            self.status = FILLED
        self.pending = None
        old = self.live
        self.live = req["clordid"]
        self.answered.append(req["clordid"])
        return [self._er(X_REP, clordid=req["clordid"], orig=old)]

    # ---- spontaneous actions (each returns reports; caller checks enabledness)
    def can(self, act):
        if act in ("ack_new", "reject_new"):
            return self.status == PENDING_NEW
        if act in ("fill_part", "fill_all"):
            return self.tradable()
        if act in ("decide_accept", "decide_reject"):
            return self.pending is not None
        if act in ("unsolicited_cancel", "expire"):
            return self.status in (NEW, PARTIAL) and not self.suspended
        if act == "suspend":
            return self.status in (NEW, PARTIAL) and not self.suspended and self.pending is None
        if act == "resume":
            return self.suspended and self.pending is None and self.status in (NEW, PARTIAL)
        return False

    def act(self, act, frac=0.5):
        assert self.can(act), act
        if act == "ack_new":
            self.status = NEW
            return [self._er(X_NEW)]
        if act == "reject_new":
            self.status = REJECTED
            return [self._er(X_REJ)]
        if act in ("fill_part", "fill_all"):
            lv = self.leaves
            q = lv if act == "fill_all" else round(lv * frac, 6)
            if q <= 0 or q >= lv:
                q = lv
            self.cum = round(self.cum + q, 6)
            self.status = FILLED if self.cum >= self.qty else PARTIAL
            return [self._er(X_TRADE, last_qty=q)]
        if act in ("decide_accept", "decide_reject"):
            return self.decide(act == "decide_accept")
        if act in ("unsolicited_cancel", "expire"):
            self.status = CANCELED if act == "unsolicited_cancel" else EXPIRED
            out = []
            req = self.pending
            self.pending = None
            er = self._er(X_CXL if act == "unsolicited_cancel" else X_EXP, clordid=req["clordid"] if req else None, orig=self.live if req else None)
            out.append(er)
            if req:
                out.append(self._ocr(req, self.status))
            return out
        if act == "suspend":
            self.suspended = True
            return [self._er(X_SUSP)]
        if act == "resume":
            self.suspended = False
            return [self._er(X_RESTATED)]
        raise ValueError(act)


SPONT = ["ack_new", "reject_new", "fill_part", "fill_all", "decide_accept", "decide_reject", "unsolicited_cancel", "expire", "suspend", "resume"]
