"""One real endpoint against a scripted counterparty (built on vlib.simnet)."""
from asyncfix.connection import ConnectionState
from vlib.reffix import reassemble, ref_check_frame, ref_get, ref_msg, ref_parse
from vlib.simnet import World, acceptor_world, initiator_world

DISC = {ConnectionState.DISCONNECTED_NOCONN_TODAY, ConnectionState.DISCONNECTED_WCONN_TODAY, ConnectionState.DISCONNECTED_BROKEN_CONN}


class Bench:
    """role: 'acceptor' (endpoint SRV, scripted peer CLI) | 'initiator' (endpoint CLI, scripted peer SRV).

    start: 'active' | 'awaiting-mid' (gap created mid-session) | 'awaiting-logon' (Logon numbered too high)
           | 'connected' (transport up, no Logon exchanged yet; initiator has sent its Logon)
    """

    def __init__(self, role, start="active", hb=30, next_in=1, next_out=1, journal=None, gap=3):
        self.role = role
        self.side = "s" if role == "acceptor" else "c"  # the endpoint's side of the link
        self.me, self.peer = ("SRV", "CLI") if role == "acceptor" else ("CLI", "SRV")
        logon = start != "connected"
        self.peer_logon_seq = next_in + (gap if start == "awaiting-logon" else 0)
        mk = acceptor_world if role == "acceptor" else initiator_world
        if start == "awaiting-logon":
            self.w, self.ep, self.link = mk(hb=hb, logon=False, journal=journal, next_in=next_in, next_out=next_out)
            self.feed(self.frame("A", self.peer_logon_seq, [(98, 0), (108, hb)]))
        else:
            self.w, self.ep, self.link = mk(hb=hb, logon=logon, journal=journal, next_in=next_in, next_out=next_out)
        self.reader = self.link.readers[self.side]
        self.writer = self.link.writers[self.side]
        if start == "awaiting-mid":
            e = self.ep._session.next_num_in
            self.feed(self.frame("D", e + gap, [(11, "gap-maker")]))
        self.mark()

    # ---- counterparty
    def frame(self, msgtype, seq, fields=(), possdup=False, sender=None, target=None, **kw):
        return ref_msg(msgtype, sender or self.peer, target or self.me, seq, list(fields), possdup=possdup, **kw)

    def feed(self, data):
        self.link.readers[self.side].feed(data)
        self.w.idle()

    # ---- observation
    def mark(self):
        self._w0 = len(self.link.writers[self.side].written)
        self._m0 = len(self.ep.app_msgs)
        self._e0 = len(self.ep.events)

    def written(self):
        """Frames written by the endpoint since mark(), parsed: list of (raw, [(tag, value)])."""
        out = []
        for b in reassemble([b for _, b in self.link.writers[self.side].written[self._w0:]]):
            out.append((b, ref_parse(b)))
        return out

    def all_written(self):
        return reassemble([b for _, b in self.link.writers[self.side].written])

    def delivered(self):
        return self.ep.app_msgs[self._m0:]

    def events(self):
        return self.ep.events[self._e0:]

    @property
    def E(self):
        return self.ep._session.next_num_in

    @property
    def N(self):
        return self.ep._session.next_num_out

    @property
    def state(self):
        return self.ep.connection_state

    def disconnected(self):
        return self.ep.connection_state in DISC

    def bad_frames(self):
        """Reference-framer complaints about anything the endpoint wrote (C02's history clause)."""
        out = []
        for b in self.all_written():
            r = ref_check_frame(b)
            if r:
                out.append((r, b))
        return out

    def close(self):
        self.w.close()


def msgtype_of(parsed):
    return ref_get(parsed, 35)


__all__ = ["Bench", "World", "DISC", "msgtype_of", "ref_get"]
