"""Hypothesis glue: seeded, database-less, collect-then-continue runs + ddmin."""
from hypothesis import HealthCheck, Phase, given, seed as hseed, settings


def run_given(strategy, fn, max_examples: int, seed: int):
    """Feed `max_examples` draws of `strategy` to fn(x). fn must judge inside
    (record violations in its accumulator) and must not raise for violations."""

    @hseed(seed)
    @settings(
        max_examples=max_examples,
        database=None,
        deadline=None,
        derandomize=False,
        report_multiple_bugs=False,
        phases=[Phase.generate],
        suppress_health_check=[HealthCheck.too_slow, HealthCheck.data_too_large,
                               HealthCheck.large_base_example],
    )
    @given(strategy)
    def _t(x):
        fn(x)

    _t()


def ddmin(items: list, still_fails, max_tests: int = 400) -> list:
    """Classic delta debugging on a list; still_fails(list) -> bool."""
    tests = 0
    n = 2
    cur = list(items)
    while len(cur) >= 2 and tests < max_tests:
        chunk = max(1, len(cur) // n)
        reduced = False
        i = 0
        while i < len(cur) and tests < max_tests:
            cand = cur[:i] + cur[i + chunk:]
            tests += 1
            if cand and still_fails(cand):
                cur = cand
                n = max(n - 1, 2)
                reduced = True
            else:
                i += chunk
        if not reduced:
            if chunk == 1:
                break
            n = min(len(cur), n * 2)
    return cur
