"""Crash-point injection for asyncfix.journaler's sqlite usage (DESIGN.md 2.5).

install() replaces `asyncfix.journaler.sqlite3` by a proxy whose connect()
returns Connection/Cursor subclasses that call CTL.point() before and after
every execute() and every commit().  What happens at a point is decided by the
controller: count only, os._exit (C08) or raise Kill (C09).
"""
import os
import sqlite3

import asyncfix.journaler as _j


class Kill(BaseException):
    """Unwinds a killed incarnation (C09)."""


class Ctl:
    def __init__(self):
        self.reset()

    def reset(self):
        self.count = 0
        self.target = None
        self.mode = "count"  # "count" | "exit" | "kill"
        self.log = []  # (op_index, kind, label)
        self.cur_op = -1
        self.first = True
        self.on_kill = None
        self.hook = None  # hook(count, op_index, kind, label) at every point (snapshot engine)
        self.enabled = True

    def begin_op(self, i):
        self.cur_op = i
        self.first = True

    def point(self, label):
        if not self.enabled:
            return
        self.count += 1
        kind = "inside"
        if self.first and label.startswith("pre"):
            kind = "boundary"
        self.first = False
        if self.target is None:
            self.log.append((self.cur_op, kind, label))
            if self.hook:
                self.hook(self.count, self.cur_op, kind, label)
        elif self.count == self.target:
            if self.mode == "exit":
                os._exit(137)
            elif self.mode == "kill":
                self.enabled = False
                if self.on_kill:
                    self.on_kill()
                raise Kill(label)

    def after_op(self, i):
        if not self.enabled:
            return
        self.count += 1
        if self.target is None:
            self.log.append((i, "after", "op-returned"))
            if self.hook:
                self.hook(self.count, i, "after", "op-returned")
        elif self.count == self.target:
            if self.mode == "exit":
                os._exit(137)


CTL = Ctl()


class _Cur(sqlite3.Cursor):
    def execute(self, sql, *a):
        tag = sql.split(None, 1)[0].upper() if isinstance(sql, str) else "?"
        CTL.point("pre-" + tag)
        r = super().execute(sql, *a)
        CTL.point("post-" + tag)
        return r


class _Conn(sqlite3.Connection):
    def cursor(self, factory=_Cur):
        return super().cursor(factory)

    def commit(self):
        CTL.point("pre-COMMIT")
        super().commit()
        CTL.point("post-COMMIT")


class _Proxy:
    def __getattr__(self, name):
        return getattr(sqlite3, name)

    @staticmethod
    def connect(filename, *a, **kw):
        kw.setdefault("factory", _Conn)
        return sqlite3.connect(filename, *a, **kw)


def install():
    if not isinstance(_j.sqlite3, _Proxy):
        _j.sqlite3 = _Proxy()


def uninstall():
    _j.sqlite3 = sqlite3
