"""Virtual-time asyncio event loop driven synchronously from outside (DESIGN.md 2.2)."""
import asyncio
import heapq
import sys

assert sys.version_info[:2] == (3, 12), "vloop relies on CPython 3.12 loop internals"


class VLoop(asyncio.SelectorEventLoop):
    def __init__(self, start=1_000_000.0):
        super().__init__()
        self._vt = float(start)
        self._clock_resolution = 1e-6

    def time(self):
        return self._vt

    def run_until_idle(self, max_rounds=100000):
        """Runs ready callbacks until none are left, without advancing time.
        Returns False if the loop is still busy after max_rounds (spinning code)."""
        rounds = [0]

        def check():
            rounds[0] += 1
            if not self._ready or rounds[0] >= max_rounds:
                self.stop()
            else:
                self.call_soon(check)

        self.call_soon(check)
        self.run_forever()
        return rounds[0] < max_rounds

    def _drop_cancelled(self):
        while self._scheduled and self._scheduled[0]._cancelled:
            h = heapq.heappop(self._scheduled)
            h._scheduled = False
            self._timer_cancelled_count = max(0, self._timer_cancelled_count - 1)

    def advance(self, dt):
        """Moves virtual time forward by dt, firing timers in order."""
        target = self._vt + dt
        while True:
            self.run_until_idle()
            self._drop_cancelled()
            if self._scheduled and self._scheduled[0]._when <= target:
                self._vt = max(self._vt, self._scheduled[0]._when)
            else:
                self._vt = target
                self.run_until_idle()
                return

    def next_timer(self):
        self._drop_cancelled()
        return self._scheduled[0]._when if self._scheduled else None

    def shutdown(self):
        """Cancel every task and close the loop (no task outlives a case)."""
        try:
            tasks = [t for t in asyncio.all_tasks(self) if not t.done()]
            for t in tasks:
                t.cancel()
            for _ in range(5):
                self.run_until_idle()
                if all(t.done() for t in tasks):
                    break
            for t in tasks:
                if t.done() and not t.cancelled():
                    t.exception()  # retrieve
        finally:
            self.close()


class VClock:
    """Stand-in for the `time` module inside asyncfix.connection."""

    def __init__(self, loop):
        self._loop = loop

    def time(self):
        # wall_offset: the wall clock may be stepped (NTP, VM resume) independently of the loop's monotonic time
        return self._loop.time() + getattr(self._loop, "wall_offset", 0.0)

    def __getattr__(self, name):
        import time as _t

        return getattr(_t, name)


class VDateTimeMeta(type):
    pass


def make_vdatetime(loop):
    """Stand-in for `datetime` class inside asyncfix.codec (utcnow from virtual time)."""
    import datetime as _dt

    class VDateTime(_dt.datetime):
        @classmethod
        def utcnow(cls):
            # wall_offset: the wall clock may be stepped (NTP, VM resume) independently of the loop's monotonic time
            return _dt.datetime(2023, 1, 1) + _dt.timedelta(seconds=loop.time() - 1_000_000.0 + getattr(loop, "wall_offset", 0.0))

    return VDateTime
