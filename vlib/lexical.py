"""Three-valued lexical oracle for FIX 4.4 datatypes (written from FIX 4.4 Volume 1, "Data Types").

classify(ftype, value, tag=None) -> "A" (must accept) | "R" (must reject) | "F" (free: the text
leaves room, nothing is asserted).  must_accept_samples(ftype) gives members for instance builders.
"""
import calendar
import re

_INT = re.compile(r"-?[0-9]+\Z")
_UINT = re.compile(r"[0-9]+\Z")
_FLOAT = re.compile(r"-?[0-9]+(\.[0-9]*)?\Z")
_FLOAT_NOLEAD = re.compile(r"-?\.[0-9]+\Z")
_UP = "ABCDEFGHIJKLMNOPQRSTUVWXYZ"

FLOATS = {"FLOAT", "QTY", "PRICE", "PRICEOFFSET", "AMT", "PERCENTAGE"}
UNCHECKED = {"DATA", "LENGTH"}
KNOWN = FLOATS | UNCHECKED | {
    "INT", "SEQNUM", "NUMINGROUP", "DAYOFMONTH", "STRING", "MULTIPLESTRINGVALUE", "MULTIPLEVALUESTRING", "CHAR", "BOOLEAN",
    "COUNTRY", "CURRENCY", "EXCHANGE", "LOCALMKTDATE", "UTCDATEONLY", "UTCTIMESTAMP", "UTCTIMEONLY", "MONTHYEAR",
}


def _printable(s):
    return all(0x20 <= ord(c) <= 0x7E for c in s)


def _date(s):
    """YYYYMMDD -> 'A' | 'R' | 'F'."""
    if not (len(s) == 8 and _UINT.match(s)):
        return "R"
    y, m, d = int(s[:4]), int(s[4:6]), int(s[6:])
    if not (1 <= m <= 12) or not (1 <= d <= 31):
        return "R"
    if y == 0:
        return "F"
    if d > calendar.monthrange(y, m)[1]:
        return "F"  # 30 February: calendar validity beyond the field ranges is FREE
    return "A"


def _time(s):
    """HH:MM:SS[.sss] -> 'A' | 'R' | 'F'."""
    m = re.match(r"([0-9]{2}):([0-9]{2}):([0-9]{2})(\.([0-9]*))?\Z", s)
    if not m:
        return "R"
    hh, mi, ss = int(m.group(1)), int(m.group(2)), int(m.group(3))
    if hh > 23 or mi > 59 or ss > 60:
        return "R"
    frac = m.group(5)
    if m.group(4) is not None:
        if len(frac) in (0, 1, 2):
            return "R"
        if len(frac) != 3:
            return "F"
    if ss == 60:
        return "F"
    return "A"


def classify(ftype, value, tag=None):
    t = ftype.upper()
    v = value
    if v == "":
        return "R"  # an empty value is never in any lexical space
    if t in UNCHECKED or t not in KNOWN:
        return "F"
    if t == "INT":
        if not _INT.match(v):
            return "R"
        return "A" if len(v) <= 300 else "F"  # FIX puts no bound on the digits; beyond any machine integer it is FREE
    if t in ("SEQNUM", "NUMINGROUP"):
        if not _INT.match(v):
            return "R"
        # sign / zero-ness from the digits (int() refuses more than 4300 digits)
        digits = v.lstrip("-")
        n = 0 if not digits.strip("0") else (-1 if v.startswith("-") else 1)
        if n > 0:
            if not _UINT.match(v):
                return "R"
            return "A" if len(v) <= 300 else "F"
        if n == 0 and str(tag) == "16":
            return "A" if v == "0" else "F"
        return "R"
    if t == "DAYOFMONTH":
        if not _INT.match(v):
            return "R"
        sig = v.lstrip("0")
        if _UINT.match(v) and len(sig) <= 2 and sig and 1 <= int(sig) <= 31:
            return "A" if len(v) <= 300 else "F"  # thousands of leading zeros: FREE
        return "R"
    if t in FLOATS:
        if _FLOAT.match(v):
            # FIX asks implementations for 15 significant digits; beyond binary64's range is FREE
            return "A" if len(v) <= 300 else "F"
        if _FLOAT_NOLEAD.match(v):
            return "F"
        return "R"
    if t == "BOOLEAN":
        return "A" if v in ("Y", "N") else "R"
    if t == "CHAR":
        if len(v) != 1:
            return "R"
        if v == "\x01":
            return "R"
        if v == "=" or v == " " or not _printable(v):
            return "F"
        return "A"
    if t == "STRING":
        if "\x01" in v:
            return "R"
        if "=" in v or not _printable(v):
            return "F"
        return "A"
    if t in ("MULTIPLESTRINGVALUE", "MULTIPLEVALUESTRING"):
        if "\x01" in v:
            return "R"
        toks = v.split(" ")
        if "=" not in v and _printable(v) and all(toks):
            return "A"
        return "F"
    if t in ("COUNTRY", "CURRENCY", "EXCHANGE"):
        n = {"COUNTRY": 2, "CURRENCY": 3, "EXCHANGE": 4}[t]
        if "\x01" in v or len(v) > n:
            return "R"
        if len(v) == n and all(c in _UP for c in v):
            return "A"
        return "F"
    if t in ("LOCALMKTDATE", "UTCDATEONLY"):
        return _date(v)
    if t == "UTCTIMEONLY":
        return _time(v)
    if t == "UTCTIMESTAMP":
        if len(v) < 9 or v[8] != "-":
            return "R"
        a, b = _date(v[:8]), _time(v[9:])
        if "R" in (a, b):
            return "R"
        return "F" if "F" in (a, b) else "A"
    if t == "MONTHYEAR":
        if len(v) == 6:
            r = _date(v + "01")
            return r
        if len(v) == 8 and v[6] == "w":
            if v[7] not in "12345":
                return "R"
            return _date(v[:6] + "01")
        if len(v) == 8:
            return _date(v)
        return "R"
    return "F"


SAMPLES = {
    "INT": ["0", "1", "-1", "42", "007", "-120000", "9" * 40, "-" + "1" * 200],
    "SEQNUM": ["1", "2", "17", "4096", "1000000000", "9223372036854775807", "1" * 100],
    "NUMINGROUP": ["1", "2", "3"],
    "DAYOFMONTH": ["1", "15", "31"],
    "BOOLEAN": ["Y", "N"],
    "CHAR": ["A", "z", "1", "!", "#"],
    "STRING": ["x", "MSFT", "some text, with: punctuation!", "ord-1", "a|b"],
    "MULTIPLESTRINGVALUE": ["A", "A B", "1 2 z"],
    "MULTIPLEVALUESTRING": ["A", "A B", "1 2 z"],
    "COUNTRY": ["US", "DE"],
    "CURRENCY": ["USD", "EUR"],
    "EXCHANGE": ["XNYS", "XLON"],
    "LOCALMKTDATE": ["20230921", "19991231", "09991231", "00010101"],
    "UTCDATEONLY": ["20230921", "20240229", "01000615"],
    "UTCTIMEONLY": ["14:00:00", "23:59:59.999", "00:00:00.000"],
    "UTCTIMESTAMP": ["20230921-14:00:00", "20230921-14:00:00.123", "20240229-23:59:59.999", "09990101-00:00:00", "00011231-23:59:59.000"],
    "MONTHYEAR": ["202309", "20230921", "202309w1", "202312w5", "099912", "00010101"],
    "DATA": ["abc"],
    "LENGTH": ["3"],
}
for _t in FLOATS:
    SAMPLES[_t] = ["0", "1", "1.5", "-2.25", "100.", "0.0001", "00023.50"]


def must_accept_samples(ftype):
    return SAMPLES.get(ftype.upper(), ["x"])
