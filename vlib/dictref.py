"""Independent reader of QuickFIX-style XML dictionaries (shares no code with asyncfix/protocol/schema.py).

Dictionary(path) exposes:
  fields[name] = Field(name, tag, ftype, enums)      by_tag[tag] = Field
  header, trailer = [Member...]                       messages[msgtype] = Message(name, msgtype, members)
Member = ("field", Field, required) | ("group", Field, required, [Member...])
Components are expanded in place, recursively, keeping declaration order; a member coming from a
component keeps its own required flag (that is how the library merges; see DESIGN.md C15 on why the
two dictionaries make this unambiguous).
"""
import xml.etree.ElementTree as ET
from collections import namedtuple

Field = namedtuple("Field", "name tag ftype enums")
Message = namedtuple("Message", "name msgtype members")


class Dictionary:
    def __init__(self, path_or_root):
        root = ET.parse(path_or_root).getroot() if isinstance(path_or_root, str) else path_or_root
        self.fields = {}
        self.by_tag = {}
        for e in root.find("fields"):
            enums = [v.attrib["enum"] for v in e if v.tag == "value"]
            f = Field(e.attrib["name"], e.attrib["number"], e.attrib["type"], tuple(enums))
            self.fields[f.name] = f
            self.by_tag[f.tag] = f
        comps = root.find("components")
        self._comp_el = {c.attrib["name"]: c for c in (comps if comps is not None else [])}
        self._comp_cache = {}
        self.optional_component_with_required_members = []
        self.header = self._members(root.find("header"), ())
        tr = root.find("trailer")
        self.trailer = self._members(tr, ()) if tr is not None else []
        self.messages = {}
        for m in root.find("messages"):
            self.messages[m.attrib["msgtype"]] = Message(m.attrib["name"], m.attrib["msgtype"], self._members(m, ()))

    def _members(self, el, stack):
        out = []
        for c in el:
            req = c.attrib.get("required", "N").upper() == "Y"
            if c.tag == "field":
                out.append(("field", self.fields[c.attrib["name"]], req))
            elif c.tag == "group":
                out.append(("group", self.fields[c.attrib["name"]], req, self._members(c, stack)))
            elif c.tag == "component":
                name = c.attrib["name"]
                if name in stack:
                    raise ValueError(f"circular component {name}")
                if name not in self._comp_cache:
                    self._comp_cache[name] = self._members(self._comp_el[name], stack + (name,))
                sub = self._comp_cache[name]
                if not req and any(m[2] for m in sub):
                    self.optional_component_with_required_members.append(name)
                out.extend(sub)
        return out

    def header_tags(self):
        return {m[1].tag for m in self.header} | {m[1].tag for m in self.trailer}


def member_tags(members):
    return [m[1].tag for m in members]


def all_group_paths(members, prefix=()):
    """Yields (path, group_member) for every group at any depth; path = tuple of group tags."""
    for m in members:
        if m[0] == "group":
            p = prefix + (m[1].tag,)
            yield p, m
            yield from all_group_paths(m[3], p)
