"""Simulated network + recording endpoints over the virtual-time loop (DESIGN.md 2.3).

The harness is synchronous code outside the loop: every action is followed by
loop.run_until_idle(), so "the library has finished reacting" is a fact.
"""
from __future__ import annotations

import asyncio
from collections import deque

import asyncfix.codec as _codec
import asyncfix.connection as _conn
import asyncfix.connection_client as _cc
import asyncfix.connection_server as _cs
from asyncfix import FMsg, FTag
from asyncfix.connection import ConnectionState
from asyncfix.connection_client import AsyncFIXClient
from asyncfix.connection_server import AsyncFIXDummyServer
from asyncfix.journaler import Journaler
from asyncfix.message import FIXMessage
from asyncfix.protocol import FIXProtocol44
from vlib.vloop import VClock, VLoop, make_vdatetime

EOF = object()
SPIN_LIMIT = 1000


class SpinDetected(Exception):
    pass


class SimReader:
    def __init__(self, loop, name=""):
        self.loop = loop
        self.name = name
        self.chunks = deque()
        self.waiter = None
        self.exc = None  # exception instance raised by every read from now on
        self.exc_raised = 0
        self.spin = False
        self.reads = 0

    def _wake(self):
        if self.waiter is not None and not self.waiter.done():
            self.waiter.set_result(None)
        self.waiter = None

    def feed(self, data: bytes):
        self.chunks.append(bytes(data))
        self._wake()

    def feed_eof(self):
        self.chunks.append(EOF)
        self._wake()

    def set_exception(self, exc):
        self.exc = exc
        self._wake()

    async def read(self, n=-1):
        while True:
            self.reads += 1
            if self.exc is not None:
                self.exc_raised += 1
                if self.exc_raised > SPIN_LIMIT:
                    # the caller re-reads a failing transport without ever yielding
                    self.spin = True
                    raise asyncio.CancelledError()
                raise self.exc
            if self.chunks:
                c = self.chunks[0]
                if c is EOF:
                    return b""  # EOF is sticky
                self.chunks.popleft()
                if n is not None and 0 < n < len(c):
                    self.chunks.appendleft(c[n:])
                    c = c[:n]
                return c
            self.waiter = self.loop.create_future()
            await self.waiter


class SimWriter:
    def __init__(self, loop, link, side):
        self.loop = loop
        self.link = link
        self.side = side
        self.written = []  # every byte string handed to write(), with virtual time
        self.closed = False
        self.drain_exc = None
        self.paused = False
        self.drain_waiters = []
        self.dropped = 0
        self.on_write = None  # hook(data) for crash injection etc.
        self.on_drain = None

    def write(self, data):
        if self.on_write:
            self.on_write(data, "pre")
        self.written.append((self.loop.time(), bytes(data)))
        if self.closed or not self.link.alive:
            self.dropped += 1
        else:
            self.link.fifo[self.side].append(bytes(data))
        if self.on_write:
            self.on_write(data, "post")

    async def drain(self):
        if self.on_drain:
            self.on_drain()
        if self.drain_exc is not None:
            raise self.drain_exc
        if self.paused:
            fut = self.loop.create_future()
            self.drain_waiters.append(fut)
            await fut

    def pause(self):
        self.paused = True

    def resume(self):
        """asyncio wakes all drain waiters in one sweep, FIFO."""
        self.paused = False
        ws, self.drain_waiters = self.drain_waiters, []
        for f in ws:
            if not f.done():
                f.set_result(None)

    def fail(self, exc):
        """Transport fault while senders wait in drain(): every waiter (FIFO) and every later drain() gets exc."""
        self.drain_exc = exc
        self.paused = False
        ws, self.drain_waiters = self.drain_waiters, []
        for f in ws:
            if not f.done():
                f.set_exception(exc)

    def close(self):
        if not self.closed:
            self.closed = True
            if self.link.alive:
                self.link.fifo[self.side].append(EOF)
            # transport.close() -> (next loop iteration) connection_lost -> own reader sees EOF, THEN wait_closed() returns;
            # senders waiting in drain() are woken. As in asyncio, whoever awaits wait_closed() is suspended until then and the
            # endpoint's reader task, woken first, runs before it
            self._closed_fut = self.loop.create_future()

            def _lost():
                self.link.readers[self.side].feed_eof()
                if not self._closed_fut.done():
                    self._closed_fut.set_result(None)
            self.loop.call_soon(_lost)
            ws, self.drain_waiters = self.drain_waiters, []
            self.paused = False
            for f in ws:
                if not f.done():
                    f.set_result(None)

    def is_closing(self):
        return self.closed

    async def wait_closed(self):
        f = getattr(self, "_closed_fut", None)
        if f is not None:
            await f
        return None

    def get_extra_info(self, name, default=None):
        return ("sim", 0)


class Link:
    """One simulated TCP connection; sides are 'c' (initiator) and 's' (acceptor)."""

    def __init__(self, loop):
        self.loop = loop
        self.alive = True
        self.fifo = {"c": deque(), "s": deque()}  # frames written by side, in flight
        self.readers = {"c": SimReader(loop, "c"), "s": SimReader(loop, "s")}
        self.writers = {"c": SimWriter(loop, self, "c"), "s": SimWriter(loop, self, "s")}
        self.lost = {"c": 0, "s": 0}

    @staticmethod
    def other(side):
        return "s" if side == "c" else "c"

    def deliver(self, frm, cuts=None):
        """Hands the next in-flight item written by `frm` to the peer's reader."""
        item = self.fifo[frm].popleft()
        r = self.readers[self.other(frm)]
        if item is EOF:
            r.feed_eof()
        elif cuts:
            prev = 0
            for c in list(cuts) + [len(item)]:
                if c > prev:
                    r.feed(item[prev:c])
                    prev = c
        else:
            r.feed(item)
        return item

    def break_(self, kind="eof"):
        """Connection loss: everything in flight is lost both ways."""
        if not self.alive:
            return
        self.alive = False
        for side in ("c", "s"):
            self.lost[side] += sum(1 for x in self.fifo[side] if x is not EOF)
            self.fifo[side].clear()
        for side in ("c", "s"):
            r, w = self.readers[side], self.writers[side]
            if kind == "eof":
                r.feed_eof()
            elif kind == "reset":
                r.set_exception(ConnectionResetError("simulated reset"))
            elif kind == "oserror":
                r.set_exception(OSError(113, "simulated: no route to host"))
            elif kind == "drain":
                w.drain_exc = ConnectionResetError("simulated reset on write")
            else:
                raise ValueError(kind)


class _FakeServer:
    def __init__(self, loop):
        self.loop = loop

    async def __aenter__(self):
        return self

    async def __aexit__(self, *a):
        return False

    async def serve_forever(self):
        await self.loop.create_future()


class _AsyncioProxy:
    """`asyncio` as seen by asyncfix.connection_client / connection_server."""

    def __init__(self, world):
        self._w = world

    def __getattr__(self, name):
        return getattr(asyncio, name)

    async def open_connection(self, host, port, **kw):
        return await self._w._open_connection(host, port)

    async def start_server(self, cb, host, port, **kw):
        self._w._accept_cb = cb
        return _FakeServer(self._w.loop)


class Recorder:
    """Mixin: records every application callback; behaves like the examples."""

    def _rec_init(self, world, name):
        self.world = world
        self.name = name
        self.events = []  # (kind, payload)
        self.app_msgs = []  # FIXMessage delivered to on_message
        self.raise_next = 0  # number of coming on_message calls that raise after recording
        self.responder = None  # async callable(msg) run inside on_message
        self.send_on_active = False  # on_state_change(ACTIVE) sends an application message
        self.sent_from_hook = 0
        self.disconnect_next = 0  # number of coming on_message calls that call disconnect() after recording
        self.auto_logon = True
        self.replay_filter = None  # callable(msg)->bool
        self.hook_gate = None  # async callable(name, *args) for the gate scheduler
        self.disconnects = 0
        self.dispatched = []
        self.dispatched_state = []

    def _ev(self, kind, payload=None):
        self.events.append((kind, payload, self.world.loop.time()))

    async def _gate(self, name, *a):
        if self.hook_gate is not None:
            await self.hook_gate(self, name, *a)

    async def on_message(self, msg):
        self._ev("msg", msg)
        self.app_msgs.append(msg)
        await self._gate("on_message", msg)
        if self.responder is not None:
            # an application that answers from inside its handler (re-entrant use of send_msg)
            await self.responder(msg)
        if self.disconnect_next > 0:
            # an application that ends the connection from inside its handler (public disconnect())
            self.disconnect_next -= 1
            from asyncfix.connection import ConnectionState as _CS

            await self.disconnect(_CS.DISCONNECTED_BROKEN_CONN)
        if self.raise_next > 0:
            # an application handler that fails AFTER it took the message
            self.raise_next -= 1
            raise RuntimeError("application handler failed after taking the message")

    async def on_connect(self):
        self._ev("connect")
        if self.auto_logon and isinstance(self, AsyncFIXClient):
            m = FIXMessage(FMsg.LOGON, {FTag.EncryptMethod: "0", FTag.HeartBtInt: self._heartbeat_period})
            await self.send_msg(m)

    async def on_disconnect(self):
        self.disconnects += 1
        self._ev("disconnect")

    async def on_logon(self, is_healthy):
        self._ev("logon", is_healthy)
        await self._gate("on_logon", is_healthy)

    async def on_logout(self, msg):
        self._ev("logout", msg)

    async def on_state_change(self, st):
        self._ev("state", st)
        await self._gate("on_state_change", st)
        if self.send_on_active and getattr(st, "name", "") == "ACTIVE":
            # an application that starts talking as soon as it is told the session is ACTIVE (from inside the hook)
            from asyncfix import FIXMessage as _M, FMsg as _F

            self.sent_from_hook += 1
            try:
                await self.send_msg(_M(_F.NEWORDERSINGLE, {11: f"from-hook-{self.sent_from_hook}", 55: "SYM"}))
            except Exception as e:  # noqa
                self._ev("hook-send-refused", type(e).__name__)

    async def should_replay(self, msg):
        await self._gate("should_replay", msg)
        if self.replay_filter is not None:
            return bool(self.replay_filter(msg))
        return True


class _Dispatch:
    """Records every frame handed to the dispatcher (then runs the real one)."""

    async def _process_message(self, msg, raw_msg):
        self.dispatched.append(bytes(raw_msg))
        self.dispatched_state.append(self.connection_state)
        await super()._process_message(msg, raw_msg)


class SimClient(_Dispatch, Recorder, AsyncFIXClient):
    pass


class SimServer(_Dispatch, Recorder, AsyncFIXDummyServer):
    pass


class World:
    """Loop + patches + endpoints. Always use as: w = World(); try: ... finally: w.close()"""

    def __init__(self):
        self.loop = VLoop()
        self._saved = (_conn.time, _codec.datetime, _cc.asyncio, _cs.asyncio)
        _conn.time = VClock(self.loop)
        _codec.datetime = make_vdatetime(self.loop)
        prox = _AsyncioProxy(self)
        _cc.asyncio = prox
        _cs.asyncio = prox
        self._accept_cb = None
        self.links = []
        self.link = None
        self.refuse_connect = False
        self.client = None
        self.server = None
        self.task_errors = []

    # ---- construction
    def make_client(self, journal=None, hb=30, sender="CLI", target="SRV"):
        j = journal if journal is not None else Journaler()
        c = SimClient(FIXProtocol44(), sender, target, j, "sim", 1, heartbeat_period=hb)
        c._rec_init(self, "c")
        self.client = c
        return c

    def make_server(self, journal=None, hb=30, sender="SRV", target="CLI", start=True):
        j = journal if journal is not None else Journaler()
        s = SimServer(FIXProtocol44(), sender, target, j, "sim", 1, heartbeat_period=hb)
        s._rec_init(self, "s")
        self.server = s
        if start:
            self.spawn(s.connect())  # launches tasks, blocks in serve_forever
        return s

    # ---- loop driving
    def spawn(self, coro):
        t = self.loop.create_task(coro)
        self.idle()
        return t

    def call(self, coro):
        """Runs coro to completion if it does not block. Returns (status, value):
        ('ok', result) | ('exc', exception) | ('pending', task)."""
        t = self.loop.create_task(coro)
        self.idle()
        if not t.done():
            return ("pending", t)
        if t.cancelled():
            return ("exc", asyncio.CancelledError())
        e = t.exception()
        if e is not None:
            return ("exc", e)
        return ("ok", t.result())

    def idle(self):
        ok = self.loop.run_until_idle()
        if not ok:
            raise SpinDetected("loop did not become idle")
        return ok

    def advance(self, dt):
        self.loop.advance(dt)

    # ---- connections
    async def _open_connection(self, host, port):
        if self.refuse_connect:
            raise ConnectionRefusedError("simulated")
        link = Link(self.loop)
        self.links.append(link)
        self.link = link
        if self._accept_cb is not None:
            self.loop.create_task(self._accept_cb(link.readers["s"], link.writers["s"]))
        return link.readers["c"], link.writers["c"]

    def connect_client(self, settle=True):
        """Real AsyncFIXClient.connect() over a fresh link; the server side (if any)
        gets its real _handle_accept()."""
        r = self.call(self.client.connect())
        if settle:
            self.advance(1.01)  # tasks poll with sleep(1) before they see the socket
        return r

    def attach_server_only(self, settle=True):
        """A fresh link whose 'c' side is scripted by the harness."""
        link = Link(self.loop)
        self.links.append(link)
        self.link = link
        self.spawn(self._accept_cb(link.readers["s"], link.writers["s"]))
        if settle:
            self.advance(1.01)
        return link

    def attach_client_only(self, settle=True):
        """Real client connect; the 's' side is scripted by the harness."""
        assert self._accept_cb is None
        return self.connect_client(settle)

    # ---- helpers
    def written(self, side, since=0):
        """Frames written by `side` on the current link (bytes list)."""
        return [b for _, b in self.link.writers[side].written[since:]]

    def close(self):
        try:
            for ep in (self.client, self.server):
                if ep is not None:
                    for t in (ep._aio_task_socket_read, ep._aio_task_heartbeat):
                        if t is not None:
                            t.cancel()
            self.loop.shutdown()
        finally:
            _conn.time, _codec.datetime, _cc.asyncio, _cs.asyncio = self._saved
            for ep in (self.client, self.server):
                if ep is not None:
                    j = ep._journaler
                    try:
                        j.cursor.close()
                        j.conn.close()
                    except Exception:
                        pass
                    j.__class__ = _DeadJournal


class _DeadJournal:
    def __del__(self):
        pass


def acceptor_world(hb=30, logon=True, journal=None, next_in=1, next_out=1):
    """A real acceptor endpoint whose counterparty ('c' side) is scripted by the harness.
    Returns (world, server, link). With logon=True a Logon (34=next_in) has been exchanged."""
    from vlib.reffix import ref_msg

    w = World()
    j = journal if journal is not None else Journaler()
    if (next_in, next_out) != (1, 1):
        ses = j.create_or_load("CLI", "SRV")
        j.set_seq_num(ses, next_num_out=next_out, next_num_in=next_in)
    s = w.make_server(journal=j, hb=hb)
    link = w.attach_server_only()
    if logon:
        link.readers["s"].feed(ref_msg("A", "CLI", "SRV", next_in, [(98, 0), (108, hb)]))
        w.idle()
    return w, s, link


def initiator_world(hb=30, logon=True, journal=None, next_in=1, next_out=1):
    """A real initiator endpoint whose counterparty ('s' side) is scripted by the harness."""
    from vlib.reffix import ref_msg

    w = World()
    j = journal if journal is not None else Journaler()
    if (next_in, next_out) != (1, 1):
        ses = j.create_or_load("SRV", "CLI")
        j.set_seq_num(ses, next_num_out=next_out, next_num_in=next_in)
    c = w.make_client(journal=j, hb=hb)
    w.connect_client()
    link = w.link
    if logon:
        link.readers["c"].feed(ref_msg("A", "SRV", "CLI", next_in, [(98, 0), (108, hb)]))
        w.idle()
    return w, c, link


def state_name(ep):
    return ConnectionState(ep.connection_state).name
