"""Generator of messages that are well-formed w.r.t. the protocol's repeating-group
table (read from the working tree at run time), with the generator's own nested-list
representation as ground truth.

body  := [entry, ...]
entry := ("f", tag:str, value:str) | ("g", tag:str, [item, ...]);  item := [entry, ...]
"""
from hypothesis import strategies as st

from asyncfix import FMsg, FTag
from asyncfix.message import FIXContainer, FIXMessage
from asyncfix.protocol import FIXProtocol44

TABLE = {str(k): [str(m) for m in v] for k, v in FIXProtocol44.repeating_groups.items()}
GROUP_KEYS = set(TABLE)
HEADER_TAGS = {"8", "9", "10", "35", "34", "49", "52", "56"}
RESERVED = HEADER_TAGS | {"43", "122", "36", "123"}  # mode-controlled tags
SKIPPED_GROUPS = {k for k, v in TABLE.items() if not v or v[0] in GROUP_KEYS}


def transitive_members(g, _seen=None):
    seen = _seen if _seen is not None else set()
    for m in TABLE[g]:
        if m not in seen:
            seen.add(m)
            if m in TABLE:
                seen.add(m)
                transitive_members(m, seen)
    return seen


TRANS = {g: transitive_members(g) for g in TABLE}
ALL_MEMBERS = set().union(*TRANS.values()) if TRANS else set()
PLAIN_TAGS = sorted(
    {str(t.value) for t in FTag} - RESERVED - GROUP_KEYS, key=int
)
LOOKALIKES = [
    "8=FIX.4.4", "8=FIX.", "x8=FIX.4.4y", "10=000", "10=123", "9=12", "35=A", "=", "==", "|",
    "=>", " lead", "trail ", "  ", "0", "007", "1=2", "34=5", "43=Y", "8=FIX", "FIX.4.4", "10=",
    "2=>[a|b]", "#err#",
]
MARKER = "8=FIX."

printable = st.text(alphabet=st.characters(min_codepoint=0x20, max_codepoint=0x7E), min_size=1, max_size=12)
long_text = st.text(alphabet=st.characters(min_codepoint=0x20, max_codepoint=0x7E), min_size=13, max_size=300)


def value_strategy(allow_marker=True):
    look = LOOKALIKES if allow_marker else [v for v in LOOKALIKES if MARKER not in v]
    base = st.one_of(
        printable, printable, printable,
        st.sampled_from(look),
        st.tuples(printable, st.sampled_from(look), printable).map("".join),
        long_text,
        st.integers(0, 10**9).map(str),
    )
    if not allow_marker:
        base = base.map(lambda s: s.replace(MARKER, "8=FIX,"))
    return base


@st.composite
def item_strategy(draw, g, values, depth, big=False):
    members = TABLE[g]
    item = [("f", members[0], draw(values))]
    blocked = set()
    skipped = 0
    for m in members[1:]:
        if m in blocked:
            skipped += 1
            continue
        if not draw(st.booleans()):
            continue
        if m in TABLE:
            if m in SKIPPED_GROUPS or depth <= 0:
                continue
            item.append(draw(group_strategy(m, values, depth - 1)))
            blocked |= TRANS[m]
        else:
            item.append(("f", m, draw(values)))
    return item


@st.composite
def group_strategy(draw, g, values, depth):
    n = draw(st.one_of(st.integers(1, 3), st.integers(1, 4), st.sampled_from([1, 2, 5, 30]) if depth >= 3 else st.just(1)))
    return ("g", g, [draw(item_strategy(g, values, depth)) for _ in range(n)])


@st.composite
def body_strategy(draw, values, max_entries=8):
    n = draw(st.integers(0, max_entries))
    body = []
    used = set()
    blocked = set()  # members of groups already placed (ambiguous afterwards)
    plain = st.one_of(st.sampled_from(PLAIN_TAGS), st.integers(5000, 99999).map(str))
    groups = sorted(GROUP_KEYS - SKIPPED_GROUPS, key=int)
    for _ in range(n):
        if draw(st.integers(0, 9)) < 3 and groups:
            g = draw(st.sampled_from(groups))
            if g in used or g in blocked:
                continue
            used.add(g)
            body.append(draw(group_strategy(g, values, 4)))
            blocked |= TRANS[g]
        else:
            t = draw(plain)
            if t in used or t in blocked:
                continue
            used.add(t)
            body.append(("f", t, draw(values)))
    return body


CUSTOM_TYPES = st.text(alphabet="ABCDEFGHIJKLMNOPQRSTUVWXYZabcdefghijklmnopqrstuvwxyz0123456789", min_size=1, max_size=3).filter(
    lambda s: s not in FMsg
)
STD_TYPES = [m.value for m in FMsg]


# custom types that are spelled like a member NAME of the msgtype enum (not its value) are still custom types
NAME_LIKE = sorted({n for m in FMsg for n in (m.name, m.name.lower(), m.name.capitalize()) if n not in FMsg})[:400]


def msgtype_strategy():
    return st.one_of(st.sampled_from(NAME_LIKE), st.sampled_from(STD_TYPES), st.sampled_from(STD_TYPES), CUSTOM_TYPES, st.sampled_from(["4", "4", "D", "8", "A", "0"]))


compid = st.one_of(
    st.sampled_from(["CLI", "SRV", "A", "SENDER COMP", "a=b", "x|y"]),
    st.text(alphabet=st.characters(min_codepoint=0x20, max_codepoint=0x7E), min_size=1, max_size=10),
)
seqnum = st.one_of(st.integers(1, 20), st.sampled_from([1, 2, 9, 10, 99, 100, 999999, 2**31 - 1, 2**31, 2**63 - 1]), st.integers(1, 2**31))


@st.composite
def message_case(draw, allow_marker=True, max_entries=8):
    values = value_strategy(allow_marker)
    mt = draw(msgtype_strategy())
    body = draw(body_strategy(values, max_entries))
    mode = "seqreset" if mt == "4" else draw(st.sampled_from(["normal", "normal", "normal", "possdup", "raw"]))
    case = {
        "msgtype": mt,
        "mode": mode,
        "body": body,
        "sender": draw(compid),
        "target": draw(compid),
        "next_out": draw(seqnum),
        "carried": draw(seqnum),
        # FIXMessage documents msg_type as `str | FMsg`: standard types come in both spellings
        "type_spelling": draw(st.sampled_from(["enum", "str"])),
        "possdup_tail": draw(st.booleans()),
    }
    if mode == "seqreset":
        case["newseqno"] = draw(seqnum)
        case["gapfill"] = draw(st.sampled_from([None, "Y", "N"]))
    return case


def fill_container(c: FIXContainer, entries):
    for e in entries:
        if e[0] == "f":
            c.set(e[1], e[2])
        else:
            items = []
            for it in e[2]:
                ic = FIXContainer()
                fill_container(ic, it)
                items.append(ic)
            c.set_group(e[1], items)


def build_message(case):
    """FIXMessage for a case; mode-specific tags are placed as the library's own code does."""
    mt = case["msgtype"]
    m = FIXMessage(FMsg(mt) if (mt in FMsg and case.get("type_spelling", "enum") == "enum") else mt)
    mode = case["mode"]
    extra = []
    if mode == "possdup":
        m.set(FTag.MsgSeqNum, case["carried"])
        extra = [("f", "43", "Y")]
    elif mode == "raw":
        m.set(FTag.MsgSeqNum, case["carried"])
    elif mode == "seqreset":
        m.set(FTag.MsgSeqNum, case["carried"])
        if case.get("gapfill"):
            extra.append(("f", "123", case["gapfill"]))
        extra.append(("f", "36", str(case["newseqno"])))
    if mode == "possdup" and case.get("possdup_tail"):
        # the layout _process_resend produces: PossDupFlag / OrigSendingTime AFTER the original body (possibly after a group)
        full_body = list(case["body"]) + extra + [("f", "122", "20230101-00:00:00.000")]
    else:
        full_body = extra + list(case["body"])
    fill_container(m, full_body)
    return m, full_body


def to_nested(c: FIXContainer):
    out = []
    for t, v in c.tags.items():
        if hasattr(v, "groups"):
            out.append(("g", t, [to_nested(i) for i in v.groups]))
        else:
            out.append(("f", t, v))
    return out


def norm(body):
    out = []
    for e in body:
        if e[0] == "f":
            out.append(("f", str(e[1]), str(e[2])))
        else:
            out.append(("g", str(e[1]), [norm(i) for i in e[2]]))
    return out


def structure_sig(case):
    """Structural signature for distinctness."""

    def walk(entries):
        r = []
        for e in entries:
            if e[0] == "g":
                r.append((e[1], tuple(tuple(walk(i)) for i in e[2])))
            else:
                r.append(e[1] if any(x in e[2] for x in ("=", "|", "FIX", "10")) else "")
        return tuple(r)

    return (case["msgtype"], case["mode"], walk(case["body"]))


def has_group(body):
    return any(e[0] == "g" for e in body)


def has_lookalike(body):
    for e in body:
        if e[0] == "f":
            if any(x in e[2] for x in ("8=FIX", "10=", "9=", "35=", "=", "|")):
                return True
        else:
            if any(has_lookalike(i) for i in e[2]):
                return True
    return False


def has_marker(body):
    for e in body:
        if e[0] == "f":
            if MARKER in e[2]:
                return True
        elif any(has_marker(i) for i in e[2]):
            return True
    return False


def sweep_cases():
    """Seed-independent: every usable table entry x items 1..3 x {delimiter only, all
    members without nested groups, nested groups present}."""
    cases = []

    def item(g, shape, depth, k):
        ms = TABLE[g]
        it = [("f", ms[0], f"v{k}")]
        if shape == "delim":
            return it
        blocked = set()
        for m in ms[1:]:
            if m in blocked:
                continue
            if m in TABLE:
                if shape == "nested" and depth > 0 and m not in SKIPPED_GROUPS:
                    it.append(("g", m, [item(m, shape, depth - 1, f"{k}.{j}") for j in range(2)]))
                    blocked |= TRANS[m]
            else:
                it.append(("f", m, f"{m}-{k}"))
        return it

    for g in sorted(GROUP_KEYS - SKIPPED_GROUPS, key=int):
        for n in (1, 2, 3):
            for shape in ("delim", "all", "nested"):
                body = [("f", "11", "before"), ("g", g, [item(g, shape, 4, i) for i in range(n)]), ("f", "5001", "after")]
                body = [e for e in body if e[0] == "g" or e[1] not in TRANS[g]]
                cases.append({"msgtype": "D", "mode": "normal", "body": body, "sender": "CLI", "target": "SRV",
                              "next_out": 7, "carried": 3, "sweep": f"{g}/{n}/{shape}"})
    for g in sorted(GROUP_KEYS - SKIPPED_GROUPS, key=int):
        for n in (1, 2):
            body = [("f", "11", "before"), ("g", g, [item(g, "all", 0, i) for i in range(n)])]
            body = [e for e in body if e[0] == "g" or e[1] not in TRANS[g]]
            if "43" in TRANS[g] or "122" in TRANS[g]:
                continue
            cases.append({"msgtype": "D", "mode": "possdup", "possdup_tail": True, "body": body, "sender": "CLI", "target": "SRV",
                          "next_out": 7, "carried": 3, "sweep": f"possdup-tail/{g}/{n}"})
    for mt in NAME_LIKE[:60]:
        cases.append({"msgtype": mt, "mode": "normal", "body": [("f", "58", "x")], "sender": "CLI", "target": "SRV", "next_out": 7, "carried": 3, "sweep": f"name-like/{mt}"})
    # every encoding mode x both spellings of the message type (msg_type is documented as `str | FMsg`)
    for sp in ("enum", "str"):
        for mt, mode in [("D", "normal"), ("D", "possdup"), ("D", "raw"), ("8", "possdup"), ("0", "normal"), ("4", "seqreset"), ("A", "raw")]:
            for gf in ((None, "Y", "N") if mode == "seqreset" else (None,)):
                c = {"msgtype": mt, "mode": mode, "body": [("f", "58", "text")] if mt != "4" else [], "sender": "CLI", "target": "SRV",
                     "next_out": 41, "carried": 12, "type_spelling": sp, "sweep": f"mode/{mt}/{mode}/{sp}"}
                if mode == "seqreset":
                    c["newseqno"] = 50
                    c["gapfill"] = gf
                cases.append(c)
    return cases
