"""Two real endpoints (AsyncFIXClient / AsyncFIXDummyServer subclasses) joined by the simulated link."""
import hashlib

from asyncfix import FMsg
from asyncfix.connection import ConnectionState
from asyncfix.errors import FIXConnectionError
from asyncfix.journaler import Journaler
from asyncfix.message import FIXMessage, MessageDirection
from vlib.reffix import reassemble, ref_check_frame
from vlib.simnet import EOF, World

DISC = (ConnectionState.DISCONNECTED_NOCONN_TODAY, ConnectionState.DISCONNECTED_WCONN_TODAY, ConnectionState.DISCONNECTED_BROKEN_CONN)


class Duo:
    def __init__(self, hb=30, cj=None, sj=None, connect=True, start=None):
        self.w = World()
        self.hb = hb
        if start is not None:
            # a session that has been running: client's next outbound / inbound numbers (the server's are the mirror image)
            a, b = start
            cj, sj = Journaler(), Journaler()
            cj.set_seq_num(cj.create_or_load("SRV", "CLI"), next_num_out=a, next_num_in=b)
            sj.set_seq_num(sj.create_or_load("CLI", "SRV"), next_num_out=b, next_num_in=a)
        self.s = self.w.make_server(journal=sj if sj is not None else Journaler(), hb=hb)
        self.c = self.w.make_client(journal=cj if cj is not None else Journaler(), hb=hb)
        self.ep = {"c": self.c, "s": self.s}
        self.accepted = {"c": [], "s": []}  # payload ids whose send_msg returned normally
        self.maybe = {"c": set(), "s": set()}  # payload ids whose send raised a transport error after allocation
        self.uid = 0
        self.frames_checked = 0
        self.bad_frames = []
        self._wpos = {}
        if connect:
            self.reconnect()

    # ---- actions
    def other(self, side):
        return "s" if side == "c" else "c"

    def link_alive(self):
        return self.w.link is not None and self.w.link.alive

    def connected(self, side):
        return self.ep[side].connection_state not in DISC

    def can_reconnect(self):
        return not self.connected("c") and not self.connected("s") and self.c._socket_reader is None and self.s._socket_writer is None

    def reconnect(self):
        self.w.refuse_connect = False
        r = self.w.connect_client()
        return r

    def send(self, side, text=None):
        """Application send of a uniquely identified message. Returns 'accepted' | 'refused' | 'failed'."""
        self.uid += 1
        pid = f"{side}{self.uid}"
        ep = self.ep[side]
        m = FIXMessage(FMsg.NEWORDERSINGLE, {11: pid, 55: "SYM", 58: text or f"payload {pid}"})
        n0 = ep._session.next_num_out
        r = self.w.call(ep.send_msg(m))
        if r[0] == "ok":
            self.accepted[side].append(pid)
            return "accepted", pid
        if r[0] == "pending":
            raise RuntimeError("send blocked")
        if ep._session.next_num_out != n0:
            self.maybe[side].add(pid)
            return "failed", pid
        return "refused", pid

    def set_responder(self, side):
        """From now on the application of `side` answers every received (non-answer) message from inside on_message."""
        ep = self.ep[side]

        async def answer(msg, side=side, ep=ep):
            ref = str(msg.get(11, "?"))
            if "r" in ref:
                return  # never answer an answer
            self.uid += 1
            pid = f"{side}r{self.uid}"
            n0 = ep._session.next_num_out
            try:
                await ep.send_msg(FIXMessage(FMsg.NEWORDERSINGLE, {11: pid, 55: "SYM", 58: f"answer to {ref}"}))
            except FIXConnectionError:
                if ep._session.next_num_out != n0:
                    self.maybe[side].add(pid)
                return
            except (ConnectionError, OSError):
                self.maybe[side].add(pid)
                raise  # an application that does not guard its answer: the transport error leaves on_message
            self.accepted[side].append(pid)
        ep.responder = answer

    def send_test_req(self, side):
        """The endpoint's own keep-alive probe (TestRequest); the peer answers with a Heartbeat when it arrives."""
        ep = self.ep[side]
        if ep._socket_writer is None:
            return "refused"
        ep._test_req_id = None
        r = self.w.call(ep.send_test_req())
        if r[0] == "pending":
            raise RuntimeError("send_test_req blocked")
        return "ok" if r[0] == "ok" else "refused"

    def fifo(self, frm):
        return self.w.link.fifo[frm] if self.w.link is not None else ()

    def can_deliver(self, frm):
        return self.link_alive() and len(self.w.link.fifo[frm]) > 0

    def deliver(self, frm, cuts=None):
        item = self.w.link.deliver(frm, cuts)
        self.w.idle()
        return item

    def deliver_breaking(self, frm):
        """The next frame from `frm` is read by the other end and the connection breaks right behind it: what that end writes
        while it handles the frame (an answer from inside on_message, a Heartbeat, a retransmission) already fails at drain()
        with ConnectionResetError; everything else in flight is lost."""
        link = self.w.link
        to = self.other(frm)
        link.writers[to].drain_exc = ConnectionResetError("simulated reset on write")
        link.writers[frm].drain_exc = ConnectionResetError("simulated reset on write")
        item = link.deliver(frm)
        self.w.idle()
        link.break_("reset")
        self.w.idle()
        return item

    def deliver_all(self, frm):
        """Everything in flight from `frm` arrives coalesced in ONE read (TCP is a byte stream), up to an EOF."""
        link = self.w.link
        buf = b""
        while link.fifo[frm] and link.fifo[frm][0] is not EOF:
            buf += link.fifo[frm].popleft()
        if buf:
            link.readers[self.other(frm)].feed(buf)
        self.w.idle()
        return buf

    def logout(self, side):
        """Graceful end of the connection by `side`: the public disconnect() with a Logout message, then the socket is closed."""
        ep = self.ep[side]
        r = self.w.call(ep.disconnect(ConnectionState.DISCONNECTED_WCONN_TODAY, logout_message="bye"))
        if r[0] == "pending":
            raise RuntimeError("disconnect blocked")
        self.w.idle()
        return r[0]

    def brk(self, kind="eof"):
        self.w.link.break_(kind)
        self.w.idle()

    def advance(self, dt):
        self.w.advance(dt)

    # ---- observation
    def delivered(self, to_side):
        """Payload ids the application of `to_side` received, in order."""
        return [m.get(11, "?") for m in self.ep[to_side].app_msgs]

    def check_frames(self):
        """Reference-framer check of every frame any endpoint wrote since the last call."""
        for li, link in enumerate(self.w.links):
            for side in ("c", "s"):
                wr = link.writers[side].written
                k = self._wpos.get((li, side), 0)
                for fr in reassemble([x for _, x in wr[k:]]):
                    self.frames_checked += 1
                    why = ref_check_frame(fr)
                    if why:
                        self.bad_frames.append((why, fr))
                self._wpos[(li, side)] = len(wr)
        return self.bad_frames

    def sig(self):
        h = hashlib.blake2b(digest_size=12)
        for side in ("c", "s"):
            ep = self.ep[side]
            h.update(repr((int(ep.connection_state), ep._session.next_num_in, ep._session.next_num_out, ep._max_seq_num_resend, len(ep.app_msgs),
                           len(self.accepted[side]), ep._socket_reader is None)).encode())
            for fr in ep._journaler.recover_messages(ep._session, MessageDirection.OUTBOUND, 0, 2**62):
                h.update(fr)
            if self.w.link is not None:
                h.update(b"|alive" if self.w.link.alive else b"|dead")
                for x in self.w.link.fifo[side]:
                    h.update(b"EOF" if x is EOF else x)
                    h.update(b";")
        return h.digest()

    def close(self):
        self.w.close()


def quiesce(d, cap=400, watchdog=True):
    """Closure of a run: deliver everything in flight; if an end is disconnected afterwards make both ends notice
    (watchdog for an end that has not seen the loss), reconnect (real connect + Logon from on_connect) and deliver
    again, until both FIFOs are empty with both ends connected. Returns (deliveries, capped)."""
    n = 0
    for _round in range(8):
        progressed = True
        while progressed and n < cap:
            progressed = False
            for frm in ("c", "s"):
                while d.can_deliver(frm) and n < cap:
                    d.deliver(frm)
                    n += 1
                    progressed = True
        if n >= cap:
            return n, True
        if d.link_alive() and d.connected("c") and d.connected("s"):
            return n, False
        if d.link_alive():
            d.brk("eof")
        if d.connected("c") or d.connected("s"):
            # an end that has not noticed the loss (a failing drain only shows on write): the watchdog's job
            if not watchdog:
                return n, False
            d.w.refuse_connect = True
            d.advance(3.5 * d.hb + 5)
            if d.connected("c") or d.connected("s"):
                # not logged on (no watchdog yet) and nothing to write: the OS reports the dead peer on read eventually
                for side in ("c", "s"):
                    if d.connected(side):
                        d.w.link.readers[side].feed_eof()
                d.w.idle()
                d.advance(1.01)
            d.w.refuse_connect = False
        if d.connected("c") or d.connected("s") or d.c._socket_reader is not None or d.s._socket_writer is not None:
            return n, False
        d.reconnect()
    return n, False
