#!/venv/bin/python
"""Confirm a seeded defect and run the registered checks against it.

usage: tools/seedcheck.py <dir with patch.diff + demo.py> [--props C01,C05] [--tier quick] [--seed 1] [--skip-confirm]

Uses a scratch git worktree of /repo's HEAD under /tmp (removed afterwards); /repo itself is never touched.
 1. clean worktree: demo must exit 0
 2. apply patch (git apply --3way), run the pinned test suite (must pass), demo must exit non-zero
 3. for each property: ./check <P> with ASYNCFIX_SRC=<worktree>  -> CAUGHT (rc 1) / MISSED (rc 0) / HARNESS-ERROR (rc 2)
Prints one JSON line "SEEDCHECK {...}" at the end.
"""
import argparse
import json
import os
import shutil
import subprocess
import sys
import tempfile

PY = "/venv/bin/python"


def sh(cmd, cwd=None, env=None, timeout=1800):
    try:
        r = subprocess.run(cmd, cwd=cwd, env=env, capture_output=True, text=True, timeout=timeout)
        return r.returncode, r.stdout, r.stderr
    except subprocess.TimeoutExpired as e:
        return 124, (e.stdout or b"").decode() if isinstance(e.stdout, bytes) else (e.stdout or ""), "TIMEOUT"


def main():
    ap = argparse.ArgumentParser()
    ap.add_argument("dir")
    ap.add_argument("--props", default="")
    ap.add_argument("--tier", default="quick")
    ap.add_argument("--seed", default="1")
    ap.add_argument("--skip-confirm", action="store_true")
    ap.add_argument("--keep", default="", help="store under /verif/seeded/<name>/ when confirmed (patch.diff, demo.py, notes.md, meta.json)")
    ap.add_argument("--property", default="")
    ap.add_argument("--patch", default="patch.diff", help="patch file name inside the directory (e.g. patch_ported.diff)")
    ap.add_argument("--benign", action="store_true", help="the change is meant to KEEP the property: confirmed when the demo exits 0 with and without it; "
                    "kept under /verif/benign/, verdict QUIET (rc 0) is the wanted one, ALARM (rc 1) a false alarm to look into")
    a = ap.parse_args()
    d = os.path.abspath(a.dir)
    patch = os.path.join(d, a.patch)
    demo = os.path.join(d, "demo.py")
    wt = tempfile.mkdtemp(prefix="seedwt_")
    os.rmdir(wt)
    res = {"dir": d, "confirm": {}, "checks": {}}
    try:
        rc, o, e = sh(["git", "-C", "/repo", "worktree", "add", "-q", "--detach", wt, "HEAD"])
        if rc:
            print("cannot create worktree", e)
            return 2
        env = {**os.environ, "PYTHONPATH": wt, "PYTHONDONTWRITEBYTECODE": "1"}
        if not a.skip_confirm and os.path.exists(demo):
            rc, o, e = sh(["timeout", "300", PY, demo], cwd=wt, env=env)
            res["confirm"]["demo_clean_rc"] = rc
        rc, o, e = sh(["git", "apply", "--3way", patch], cwd=wt)
        if rc:
            rc, o, e = sh(["git", "apply", patch], cwd=wt)
        res["confirm"]["apply_rc"] = rc
        if rc:
            res["confirm"]["apply_err"] = e[-500:]
            print("SEEDCHECK", json.dumps(res))
            return 3
        if not a.skip_confirm:
            rc, o, e = sh(["timeout", "900", PY, "-m", "pytest", "-q", "-p", "no:cacheprovider", "--timeout=900"], cwd=wt, env=env)
            tail = (o.strip().splitlines() or [""])[-1]
            res["confirm"]["pytest_rc"] = rc
            res["confirm"]["pytest"] = tail
            if os.path.exists(demo):
                rc, o, e = sh(["timeout", "300", PY, demo], cwd=wt, env=env)
                res["confirm"]["demo_patched_rc"] = rc
                res["confirm"]["demo_patched_out"] = (o + e).strip()[-300:]
        for p in [x for x in a.props.split(",") if x]:
            env2 = {**os.environ, "ASYNCFIX_SRC": wt, "VERIF_SEED": a.seed, "VERIF_OUT": wt + "_out"}
            rc, o, e = sh(["/verif/check", p, "--tier", a.tier], env=env2, timeout=7200)
            sigs = [ln.strip()[:260] for ln in o.splitlines() if ln.strip().startswith("sig=")]
            res["checks"][p] = {"rc": rc, "verdict": ({0: "QUIET", 1: "ALARM"} if a.benign else {0: "MISSED", 1: "CAUGHT"}).get(rc, "HARNESS-ERROR"), "sigs": sigs[:6],
                                "tail": (o.strip().splitlines() or [""])[-1][:300]}
            if rc not in (0, 1):
                res["checks"][p]["err"] = (o + e)[-1500:]
    finally:
        sh(["git", "-C", "/repo", "worktree", "remove", "--force", wt])
        shutil.rmtree(wt, ignore_errors=True)
        shutil.rmtree(wt + "_out", ignore_errors=True)
    print("SEEDCHECK", json.dumps(res, indent=1))
    c = res["confirm"]
    confirmed = c.get("demo_clean_rc") == 0 and c.get("pytest_rc") == 0 and c.get("demo_patched_rc") not in (0, None, 124)
    if a.benign:
        confirmed = c.get("demo_clean_rc") == 0 and c.get("pytest_rc") == 0 and c.get("demo_patched_rc") == 0
    if a.keep:
        if not confirmed and not a.skip_confirm:
            print("NOT CONFIRMED - not kept")
            return 4
        dst = os.path.join("/verif/benign" if a.benign else "/verif/seeded", a.keep)
        os.makedirs(dst, exist_ok=True)
        for f in ("patch.diff", "demo.py", "notes.md"):
            if os.path.exists(os.path.join(d, f)) and os.path.abspath(d) != os.path.abspath(dst):
                shutil.copy(os.path.join(d, f), dst)
        meta_p = os.path.join(dst, "meta.json")
        meta = json.load(open(meta_p)) if os.path.exists(meta_p) else {}
        notes = open(os.path.join(dst, "notes.md")).read() if os.path.exists(os.path.join(dst, "notes.md")) else ""
        meta.update({
            "property": a.property or meta.get("property", ""),
            "needs_to_manifest": meta.get("needs_to_manifest") or notes.strip()[:1500],
            "origin": "independent sub-agent given only the property text and a scratch worktree",
            **({"kind": "benign: the property still holds with this change; a check that exits 1 on it raises a false alarm"} if a.benign else {}),
            "confirmed": {**meta.get("confirmed", {}), **({} if a.skip_confirm else {
                "repo_head": subprocess.run(["git", "-C", "/repo", "rev-parse", "--short", "HEAD"], capture_output=True, text=True).stdout.strip(),
                "demo_on_clean_tree_rc": c.get("demo_clean_rc"), "pinned_tests_with_patch": c.get("pytest"), "demo_with_patch_rc": c.get("demo_patched_rc"),
                "how": "tools/seedcheck.py: scratch worktree of /repo HEAD, demo before patch, git apply, pinned pytest suite, demo after patch"})},
            "checks": {**meta.get("checks", {}), **{p: {"tier": a.tier, "seed": a.seed, "verdict": v["verdict"], "sigs": [x.split(" count=")[0] for x in v["sigs"]]}
                                                    for p, v in res["checks"].items()}},
        })
        json.dump(meta, open(meta_p, "w"), indent=1)
        print("kept in", dst)
    return 0


if __name__ == "__main__":
    sys.exit(main())
