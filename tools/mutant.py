#!/venv/bin/python
"""Sensitivity helper: apply one textual mutation to a scratch copy of /repo and run a check on it.

usage: tools/mutant.py <PROP> <file-relative-to-repo> <old> <new> [--tier quick] [--pytest] [--all]
The scratch copy lives under /tmp and is removed afterwards. /repo is never touched.
"""
import argparse, os, shutil, subprocess, sys, tempfile

ap = argparse.ArgumentParser()
ap.add_argument("prop"); ap.add_argument("file"); ap.add_argument("old"); ap.add_argument("new")
ap.add_argument("--tier", default="quick"); ap.add_argument("--pytest", action="store_true")
ap.add_argument("--all", action="store_true", help="replace all occurrences")
ap.add_argument("--seed", default="1")
a = ap.parse_args()
d = tempfile.mkdtemp(prefix="asyncfix_mut_")
try:
    shutil.copytree("/repo/asyncfix", d + "/asyncfix", ignore=shutil.ignore_patterns("__pycache__"))
    shutil.copytree("/repo/tests", d + "/tests", ignore=shutil.ignore_patterns("__pycache__"))
    for f in ("pyproject.toml",):
        shutil.copy("/repo/" + f, d)
    p = os.path.join(d, a.file)
    s = open(p).read()
    old = a.old.encode().decode("unicode_escape"); new = a.new.encode().decode("unicode_escape")
    n = s.count(old)
    if n == 0:
        print("MUTANT: pattern not found"); sys.exit(3)
    if n > 1 and not a.all:
        print(f"MUTANT: pattern found {n} times, replacing the first")
    s = s.replace(old, new) if a.all else s.replace(old, new, 1)
    open(p, "w").write(s)
    if a.pytest:
        r = subprocess.run(["/venv/bin/python", "-m", "pytest", "-q", "-x", "-p", "no:cacheprovider", "tests"], cwd=d,
                           capture_output=True, text=True, env={**os.environ, "PYTHONPATH": d})
        print("PYTEST:", r.stdout.strip().splitlines()[-1] if r.stdout.strip() else r.stderr[-300:])
    env = {**os.environ, "ASYNCFIX_SRC": d, "VERIF_SEED": a.seed, "VERIF_OUT": d + "/_out"}
    r = subprocess.run(["/verif/check", a.prop, "--tier", a.tier], env=env, capture_output=True, text=True)
    out = r.stdout.strip().splitlines()
    for ln in out[-12:]:
        print("   ", ln[:300])
    if r.returncode == 2:
        print(r.stderr[-1500:])
    print(f"MUTANT-RESULT prop={a.prop} rc={r.returncode} ({'CAUGHT' if r.returncode == 1 else 'MISSED' if r.returncode == 0 else 'HARNESS-ERROR'})")
finally:
    shutil.rmtree(d, ignore_errors=True)
    # replays written for mutants are not kept
