#!/venv/bin/python
"""Re-runs every kept seeded defect against the checks recorded for it (at /repo HEAD) and writes seeded/RESULTS.md.

usage: tools/seedall.py [--only C06-m1,C14-m2] [--tier quick]
"""
import argparse
import glob
import json
import os
import subprocess
import sys

ap = argparse.ArgumentParser()
ap.add_argument("--only", default="")
ap.add_argument("--tier", default="quick")
ap.add_argument("--skip-confirm", action="store_true", help="do not repeat the demo / pinned-test confirmation done when the change was kept")
ap.add_argument("--jobs", type=int, default=1, help="seeded changes examined in parallel (each check then gets 16/jobs worker processes)")
a = ap.parse_args()
only = set(x for x in a.only.split(",") if x)
rows = []
head = subprocess.run(["git", "-C", "/repo", "rev-parse", "--short", "HEAD"], capture_output=True, text=True).stdout.strip()
def one(d):
    name = os.path.basename(d.rstrip("/"))
    meta = json.load(open(d + "meta.json"))
    if meta.get("status", "").startswith("obsolete"):
        return (name, meta.get("property"), "-", "obsolete (code replaced by a fix)", "")
    props = sorted(meta.get("checks", {})) or [meta.get("property")]
    patch = "patch_ported.diff" if os.path.exists(d + "patch_ported.diff") else "patch.diff"
    cmd = ["/verif/tools/seedcheck.py", d, "--props", ",".join(props), "--patch", patch, "--tier", a.tier, "--keep", name, "--property", meta.get("property", "")]
    if a.skip_confirm:
        cmd.append("--skip-confirm")
    env = dict(os.environ, VERIF_PROCS=str(max(16 // a.jobs, 2)))
    r = subprocess.run(cmd, capture_output=True, text=True, env=env)
    out = r.stdout
    try:
        res = json.loads(out[out.index("SEEDCHECK") + 9: out.rindex("}") + 1])
    except Exception:
        return (name, meta.get("property"), "?", "seedcheck output unreadable", out[-200:])
    c = res["confirm"]
    conf = "confirmed when kept" if a.skip_confirm else f"apply={c.get('apply_rc')} demo-clean={c.get('demo_clean_rc')} tests={'ok' if c.get('pytest_rc') == 0 else c.get('pytest_rc')} demo-patched={c.get('demo_patched_rc')}"
    verdicts = ", ".join(f"{p}:{v['verdict']}" for p, v in res["checks"].items()) or "not run"
    sigs = "; ".join(s.split(" count=")[0].replace("sig=", "") for p, v in res["checks"].items() for s in v["sigs"][:2])
    print(name, verdicts, conf, flush=True)
    return (name, meta.get("property"), patch, verdicts + " | " + conf, sigs[:160])


from concurrent.futures import ThreadPoolExecutor

dirs = [d for d in sorted(glob.glob("/verif/seeded/*/")) if not only or os.path.basename(d.rstrip("/")) in only]
with ThreadPoolExecutor(a.jobs) as ex:
    rows = list(ex.map(one, dirs))
with open("/verif/seeded/RESULTS.md", "w") as f:
    f.write(f"# Seeded defects re-run against /repo {head} (tier {a.tier})\n\n")
    f.write("A change counts as detected when at least one registered check exits 1 on it (CAUGHT). `MISSED` next to `CAUGHT` means the\n"
            "property-specific check cannot see it by design (it only manifests across a crash / reopen / interleaving) and the other one does.\n\n")
    f.write("| seeded | property | patch | verdicts / confirmation | first signatures |\n|---|---|---|---|---|\n")
    for r_ in rows:
        f.write("| " + " | ".join(str(x) for x in r_) + " |\n")
print("written seeded/RESULTS.md")
