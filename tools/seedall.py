#!/venv/bin/python
"""Re-runs every kept seeded defect against the checks recorded for it (at /repo HEAD) and writes seeded/RESULTS.md.

usage: tools/seedall.py [--only C06-m1,C14-m2] [--tier quick]
"""
import argparse
import glob
import json
import os
import subprocess
import sys

ap = argparse.ArgumentParser()
ap.add_argument("--only", default="")
ap.add_argument("--tier", default="quick")
a = ap.parse_args()
only = set(x for x in a.only.split(",") if x)
rows = []
head = subprocess.run(["git", "-C", "/repo", "rev-parse", "--short", "HEAD"], capture_output=True, text=True).stdout.strip()
for d in sorted(glob.glob("/verif/seeded/*/")):
    name = os.path.basename(d.rstrip("/"))
    if only and name not in only:
        continue
    meta = json.load(open(d + "meta.json"))
    if meta.get("status", "").startswith("obsolete"):
        rows.append((name, meta.get("property"), "-", "obsolete (code replaced by a fix)", ""))
        continue
    props = sorted(meta.get("checks", {})) or [meta.get("property")]
    patch = "patch_ported.diff" if os.path.exists(d + "patch_ported.diff") else "patch.diff"
    r = subprocess.run(["/verif/tools/seedcheck.py", d, "--props", ",".join(props), "--patch", patch, "--tier", a.tier, "--keep", name,
                        "--property", meta.get("property", "")], capture_output=True, text=True)
    out = r.stdout
    try:
        res = json.loads(out[out.index("SEEDCHECK") + 9: out.rindex("}") + 1])
    except Exception:
        rows.append((name, meta.get("property"), "?", "seedcheck output unreadable", out[-200:]))
        continue
    c = res["confirm"]
    conf = f"apply={c.get('apply_rc')} demo-clean={c.get('demo_clean_rc')} tests={'ok' if c.get('pytest_rc') == 0 else c.get('pytest_rc')} demo-patched={c.get('demo_patched_rc')}"
    verdicts = ", ".join(f"{p}:{v['verdict']}" for p, v in res["checks"].items()) or "not run"
    sigs = "; ".join(s.split(" count=")[0].replace("sig=", "") for p, v in res["checks"].items() for s in v["sigs"][:2])
    rows.append((name, meta.get("property"), patch, verdicts + " | " + conf, sigs[:160]))
    print(name, verdicts, conf, flush=True)
with open("/verif/seeded/RESULTS.md", "w") as f:
    f.write(f"# Seeded defects re-run against /repo {head} (tier {a.tier})\n\n")
    f.write("A change counts as detected when at least one registered check exits 1 on it (CAUGHT). `MISSED` next to `CAUGHT` means the\n"
            "property-specific check cannot see it by design (it only manifests across a crash / reopen / interleaving) and the other one does.\n\n")
    f.write("| seeded | property | patch | verdicts / confirmation | first signatures |\n|---|---|---|---|---|\n")
    for r_ in rows:
        f.write("| " + " | ".join(str(x) for x in r_) + " |\n")
print("written seeded/RESULTS.md")
