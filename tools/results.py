#!/venv/bin/python
"""Writes seeded/RESULTS.md from the meta.json files (the verdicts of the last tools/seedcheck.py run of each seeded change;
tools/seedall.py re-runs them all, which takes hours)."""
import glob
import json
import os

rows = []
stats = {"detected": 0, "undetected": 0, "obsolete": 0}
for d in sorted(glob.glob("/verif/seeded/*/")):
    name = os.path.basename(d.rstrip("/"))
    try:
        meta = json.load(open(d + "meta.json"))
    except Exception:
        continue
    if meta.get("status", "").startswith("obsolete"):
        rows.append((name, meta.get("property"), "-", "obsolete (code replaced by a fix)", "", ""))
        stats["obsolete"] += 1
        continue
    checks = meta.get("checks", {})
    verdicts = ", ".join(f"{p}:{v['verdict']}" for p, v in sorted(checks.items())) or "not run"
    caught = any(v["verdict"] == "CAUGHT" for v in checks.values())
    stats["detected" if caught else "undetected"] += 1
    sigs = "; ".join(s.replace("sig=", "") for p, v in sorted(checks.items()) for s in v.get("sigs", [])[:1])
    c = meta.get("confirmed", {})
    conf = f"head {c.get('repo_head')}: demo clean={c.get('demo_on_clean_tree_rc')} patched={c.get('demo_with_patch_rc')}, tests {str(c.get('pinned_tests_with_patch'))[:10]}"
    patch = "patch_ported.diff" if os.path.exists(d + "patch_ported.diff") else "patch.diff"
    rows.append((name, meta.get("property"), patch, verdicts, conf, sigs[:140]))
with open("/verif/seeded/RESULTS.md", "w") as f:
    f.write("# Seeded defects: last recorded verdict of every kept change\n\n")
    f.write(f"{stats['detected']} detected by at least one registered check, {stats['undetected']} undetected (each explained in DESIGN.md 10.5: out of the "
            f"property's domain or FREE by the oracle), {stats['obsolete']} obsolete.\n\n")
    f.write("A change counts as detected when at least one registered check exits 1 on it (CAUGHT). `MISSED` next to `CAUGHT` means the\n"
            "property's own check cannot see it (it only manifests across a crash / reopen / interleaving / another layer) and a neighbour does.\n\n")
    f.write("| seeded | property | patch | verdicts (quick tier, seed 1) | confirmation when kept | first signatures |\n|---|---|---|---|---|---|\n")
    for r in rows:
        f.write("| " + " | ".join(str(x).replace("|", "\\|") for x in r) + " |\n")
print(stats)
print([r[0] for r in rows if "CAUGHT" not in r[3] and not r[3].startswith("obsolete")])
