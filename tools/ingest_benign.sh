#!/bin/bash
# usage: tools/ingest_benign.sh <P> <round> [extra props]  - changes a sub-agent built to KEEP the property; wanted verdict: QUIET
P=$1; R=$2; EXTRA=${3:+,$3}
for d in /tmp/wt/${P}${R}/out/m*; do
  [ -f "$d/patch.diff" ] || continue
  k=$(basename $d); name=${P}-${R}${k}
  echo "=== $name"
  /verif/tools/seedcheck.py $d --benign --props ${P}${EXTRA} --keep $name --property $P 2>&1 | grep -E '"(verdict|demo_clean_rc|apply_rc|pytest_rc|demo_patched_rc)"|sig=|NOT CONFIRMED' | cut -c1-330 | head -14
done
