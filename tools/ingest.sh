#!/bin/bash
# usage: tools/ingest.sh <P> <round> [extra props, comma separated]
# Confirms and keeps the mutants a sub-agent left in /tmp/wt/<P><round>/out/m* as seeded/<P>-<round>m<K>, runs check <P> (+extras).
P=$1; R=$2; EXTRA=${3:+,$3}
for d in /tmp/wt/${P}${R}/out/m*; do
  [ -f "$d/patch.diff" ] || continue
  k=$(basename $d)
  name=${P}-${R}${k}
  echo "=== $name"
  /verif/tools/seedcheck.py $d --props ${P}${EXTRA} --keep $name --property $P 2>&1 | grep -E '"(verdict|demo_clean_rc|apply_rc|pytest_rc|demo_patched_rc)"|sig=' | cut -c1-330 | head -14
done
