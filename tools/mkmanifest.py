#!/venv/bin/python
"""Regenerates /verif/MANIFEST.json from the table below (run after adding a check)."""
import json
import os

VERIF = os.path.dirname(os.path.dirname(os.path.abspath(__file__)))

# id: (category, technique, engines, level text, level note)
T = {
    "C01": ("exploration", "Hypothesis-generated well-formed messages + per-group sweep; round-trip oracle against the generator's own nested-list representation",
            "codec_gen", "Generated-input search: every group definition of the table on every run plus thousands of random messages; decides the round trip for the explored inputs, cannot show absence beyond them.",
            "Trusts the generator's list representation as ground truth; values restricted to printable ASCII as the statement says."),
    "C02": ("exploration", "generated messages and simulated session histories; every written frame checked by an independent reference framer",
            "reffix,simnet", "Generated-input search with an independent byte-level FIX framer as oracle, over direct sends and library-initiated frames of simulated histories.",
            "Trusts vlib/reffix.py (written from the FIX 4.4 session text, shares no code with codec.py)."),
    "C03": ("exploration", "exhaustive 1-/2-cut enumeration + random multi-cut partitions of reference-encoded streams through the real reader task; expectation known by construction",
            "reffix,vloop,simnet", "Cut enumeration is exhaustive per stream within the stated bound; streams and multi-cut partitions are sampled.",
            "Virtual-time event loop drives the real socket_read_task; counterparty frames come from the reference encoder."),
    "C04": ("exploration", "bounded-exhaustive inbound histories over a compact alphabet + Hypothesis histories; integer reference model of the expected number",
            "reffix,simnet,models", "Bounded-exhaustive (length bound in evidence) plus random longer histories against a one-integer reference model.",
            "Counterparty scripted with the reference encoder; FREE regions of DESIGN.md C04 are not judged."),
    "C05": ("exploration", "Hypothesis rule-based state machine over one real endpoint; per-step invariant wire number == journal key == stored counter - 1",
            "simnet,models", "Stateful generated histories with a per-step invariant; sampled, not exhaustive.",
            "Journal read back through the public Journaler API of a second load path."),
    "C06": ("exploration", "generated journals x (BeginSeqNo, EndSeqNo) ranges; chain validator written from the statement",
            "reffix,simnet,models", "Small journals x all ranges enumerated exhaustively within the bound, larger ones sampled.",
            "The harness' own log of first transmissions is the ground truth."),
    "C07": ("exploration", "bounded-exhaustive DFS with state hashing + random walks over actions (send/deliver/break/reconnect) on two real endpoints; delivery oracle at closure",
            "vloop,simnet", "Bounded-exhaustive exploration of fault placements and interleavings up to the stated depth plus long random walks; bounded-time safety reading of 'after quiescence'.",
            "Simulated transport follows asyncio stream semantics; breaks happen at frame boundaries only."),
    "C08": ("fault_enumeration", "every crash point (before/after each SQL statement and commit) of generated operation lists, realised as os._exit in forked children; dict reference model",
            "crashdb,models", "Exhaustive in crash points per operation list, sampled in lists.",
            "SQLite's atomic commit is trusted; no power-loss/fsync faults; crash points inside sqlite's C code are not reachable."),
    "C09": ("fault_enumeration", "graceful restarts and kills at recorded crash points (before/after every sqlite statement and commit, transport write, drain) of a send or of the processing of one inbound frame, in generated two-endpoint histories; all points of 30 fixed histories",
            "crashdb,simnet", "Kill points enumerated exhaustively over fixed histories and sampled over generated ones.",
            "Kill = sqlite connection closed without commit + transport dead; same trust as C07/C08."),
    "C10": ("exploration", "random binary + grammar-aware malformed frames + exhaustive single-byte edits of a valid corpus + live reader with follow-up traffic (also decodable frames the session layer chokes on) + coverage-guided atheris/libFuzzer campaign in the thorough tier; reference framer as acceptance oracle",
            "reffix,atheris", "Generated-input search; the single-byte edit sweep is exhaustive over the corpus for the stated byte set.",
            "Trusts vlib/reffix.py; a 30 s watchdog (>10^4 x slack) stands for non-termination."),
    "C11": ("exploration", "exhaustive product state x role x message class x integrity defect, each case reached through real traffic, with follow-up sends and post-disconnect input",
            "reffix,simnet", "The finite product is enumerated completely; follow-up input is sampled.",
            "States are reached through the public API and simulated traffic only."),
    "C12": ("exploration", "Hypothesis scenarios in virtual time on the real heartbeat task; toleranced timing oracle",
            "vloop,simnet", "Sampled scenarios over intervals, phases and peer scripts; liveness read as bounded-time safety.",
            "Virtual clock replaces time.time and the loop clock; tolerances stated in DESIGN.md C12."),
    "C13": ("exploration", "Hypothesis-generated operation histories on an in-memory (and, with close/reopen operations, file-backed) Journaler vs a dict reference model, compared after every operation",
            "models", "Stateful generated histories against a reference model.",
            "In-memory sqlite behaves like file-backed sqlite for these operations."),
    "C14": ("exploration", "bounded-exhaustive schedule enumeration with a gate scheduler over drain() back-pressure and awaited hooks (acceptor and first-Logon initiator task sets), plus random schedules; wire-order numbering, journal and replay-completeness oracle",
            "gates,simnet", "All schedules up to the stated number of suspension points for the listed task sets; larger sets sampled.",
            "Only interleavings that cooperative asyncio scheduling permits (FIFO drain wake-up) are generated."),
    "C15": ("exploration", "dictionary-driven valid instances for every message type, single-fault mutants per class and position, permutation metamorphic relation on <components>",
            "dictref,lexical", "Per-run sweep of message type x mutation class plus random instances; sampled.",
            "Independent XML reader vlib/dictref.py is the ground truth for the dictionary."),
    "C16": ("exploration", "exhaustive enumeration of the full finite domain against a constraint oracle derived from the statement and the FIX 4.4 order state matrices",
            "ordermodel", "The domain is finite (about 57k cells x 2 spellings) and is enumerated completely on every run, so within the oracle's constraints this is a decision, not a sample.",
            "Constraint oracle (not a golden copy of the table); OrderCancelReject absorbing/no-regress cells are FREE."),
    "C17": ("exploration", "Hypothesis rule-based machine + bounded DFS: order object vs single-order exchange simulator with two racing FIFOs",
            "ordermodel", "Bounded-exhaustive to the stated depth plus random walks.",
            "Exchange simulator performs only transitions of the FIX 4.4 matrices and always answers requests."),
    "C18": ("exploration", "Hypothesis rule-based state machine over FIXContainer/FIXMessage vs a list-of-pairs model",
            "models", "Stateful generated histories against a reference model.",
            "Canonical tag spellings only (non-canonical are FREE)."),
    "C19": ("exploration", "exhaustive short strings over type-specific alphabets + template edits + generated members/near-misses; three-valued lexical oracle",
            "lexical,dictref", "Short-string sweeps are exhaustive; the rest is sampled.",
            "Oracle asserts only where FIX 4.4 Vol.1 datatypes are unambiguous (must-accept / must-reject), FREE elsewhere."),
    "C20": ("exploration", "generated order histories through FIXTester with report invariants + schema validation; differential replay of clean session scripts vs a real acceptor endpoint",
            "simnet,dictref,ordermodel", "Sampled histories and scripts; differential oracle for fidelity.",
            "tests/FIX44.xml is the FIX 4.4 dictionary."),
}


def built():
    out = []
    for pid in sorted(T):
        if os.path.exists(os.path.join(VERIF, "checks", pid.lower() + ".py")):
            out.append(pid)
    return out


def main():
    base = json.load(open("/root/.vp/BASELINE.json"))
    setup = (
        "/venv/bin/python -c 'import sys; assert sys.version_info[:2]==(3,12)' && "
        "(/venv/bin/python -c 'import hypothesis' 2>/dev/null || "
        "/venv/bin/pip install -q --no-index --find-links /opt/veriftools/wheels hypothesis) && "
        "(test -d /verif/.deps/atheris || /venv/bin/pip install -q --no-index --find-links "
        "/opt/veriftools/wheels --target /verif/.deps atheris || true) && mkdir -p /verif/evidence /verif/replays"
    )
    man = {
        "version": 1,
        "setup_cmd": setup,
        "hooks": {
            "guard": "ASYNCFIX_VERIF",
            "enable": "none needed - no hook commits; checks observe through subclassing and harness-owned transports/clocks",
            "baseline_off_cmd": base["cmd"].replace("--junitxml=<file>", "").strip(),
            "source_commits": [],
            "add_only": True,
        },
        "engines": [
            {"name": "runner", "path": "vlib/runner.py", "serves_properties": sorted(T), "kind_free_text": "sharded generated-input runner (fresh process per shard), evidence, known findings, replay"},
            {"name": "hyp", "path": "vlib/hyp.py", "serves_properties": sorted(T), "kind_free_text": "seeded, database-less Hypothesis driver (generate phase; oracles bucket failures by signature), ddmin"},
            {"name": "reffix", "path": "vlib/reffix.py", "serves_properties": ["C02", "C03", "C04", "C05", "C06", "C07", "C09", "C10", "C11", "C12", "C14", "C20"], "kind_free_text": "independent FIX 4.4 framer / parser / encoder (oracle and counterparty traffic)"},
            {"name": "simnet", "path": "vlib/simnet.py", "serves_properties": ["C02", "C03", "C04", "C05", "C06", "C07", "C09", "C10", "C11", "C12", "C14", "C20"], "kind_free_text": "virtual-time event loop (vlib/vloop.py), simulated link, recording endpoints over the real connect/accept paths"},
            {"name": "sess", "path": "vlib/sess.py", "serves_properties": ["C02", "C04", "C05", "C06", "C11", "C12", "C14"], "kind_free_text": "one real endpoint against a scripted counterparty"},
            {"name": "duo", "path": "vlib/duo.py", "serves_properties": ["C07", "C09", "C20"], "kind_free_text": "two real endpoints, frame-by-frame delivery, breaks, reconnects, closure"},
            {"name": "crashdb", "path": "vlib/crashdb.py", "serves_properties": ["C08", "C09"], "kind_free_text": "crash points around every sqlite statement and commit"},
            {"name": "codec_gen", "path": "vlib/codec_gen.py", "serves_properties": ["C01", "C02"], "kind_free_text": "group-table driven generator of well-formed messages with its own nested-list ground truth"},
            {"name": "dictref", "path": "vlib/dictref.py", "serves_properties": ["C15", "C19", "C20"], "kind_free_text": "independent QuickFIX XML dictionary reader"},
            {"name": "lexical", "path": "vlib/lexical.py", "serves_properties": ["C15", "C19"], "kind_free_text": "three-valued oracle for the FIX 4.4 datatype lexical spaces"},
            {"name": "ordermodel", "path": "vlib/ordermodel.py", "serves_properties": ["C17"], "kind_free_text": "single-order exchange simulator restricted to the FIX 4.4 order state matrices"},
        ],
        "checks": [],
        "not_applicable": [],
        "notes": "All checks: ./check <ID> --tier quick|thorough [--replay file]; VERIF_SEED selects the seed. Known findings and repaired defects: KNOWN_FINDINGS.txt (never written at run time). Seeded defects (six rounds, 360 changes) and their detection matrix: seeded/ and seeded/RESULTS.md; property-preserving changes used to probe for false alarms: benign/ and benign/RESULTS.md. See DESIGN.md section 10.",
    }
    done = built()
    for pid in sorted(T):
        cat, tech, eng, text, note = T[pid]
        if pid in done:
            man["checks"].append({
                "property_id": pid,
                "quick_cmd": f"./check {pid} --tier quick",
                "thorough_cmd": f"./check {pid} --tier thorough",
                "evidence_file": f"evidence/{pid}.json",
                "replay_cmd_template": f"./check {pid} --replay {{path}}",
                "engine": eng,
                "level_claimed": {"category": cat, "text": text, "design_ref": f"DESIGN.md section 3 ({pid}) and section 10 (implementation record)"},
                "level_note": note,
                "technique": tech,
            })
        else:
            man["not_applicable"].append({"property_id": pid, "reason": "check not built yet (planned with property-based testing, see DESIGN.md section 3); nothing is claimed for it at this commit"})
    with open(os.path.join(VERIF, "MANIFEST.json"), "w") as f:
        json.dump(man, f, indent=1)
        f.write("\n")
    print("claimed:", done)


if __name__ == "__main__":
    main()
